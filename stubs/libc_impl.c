/* Executable models of libc functions CBMC has no model for; used only by the bounded,
 * harness-style jobs (inputs are short, loops are unwound with unwinding assertions). */
#include <stddef.h>
size_t strnlen(const char *s, size_t n) { size_t i; for (i = 0; i < n; i++) if (!s[i]) break; return i; }
