/* (natively - replay - the real libc is used instead of these models) */
#ifndef VERIF_NATIVE
/* Executable models of libc functions CBMC has no model for; used only by the bounded,
 * harness-style jobs (inputs are short, loops are unwound with unwinding assertions). */
#include <stddef.h>
size_t strnlen(const char *s, size_t n) { size_t i; for (i = 0; i < n; i++) if (!s[i]) break; return i; }
/* snprintf as far as the library uses it ("%g", "%.15lg" with one floating argument): an arbitrary
 * non-empty text of at most 24 characters, truncated to n-1 characters plus NUL; returns the full length */
#include <stdarg.h>
unsigned char nondet_u8(void);
int snprintf(char *s, size_t n, const char *fmt, ...) {
    int k = nondet_u8() % 24 + 1, i; (void) fmt;
    for (i = 0; i < k && (size_t)(i + 1) < n; i++) { char c = (char)(nondet_u8() % 94 + 33); s[i] = c; }
    if (n > 0) s[i] = 0;
    return k;
}
int __builtin_isfinite(double x) { return x == x && (x - x) == 0.0; }
int nondet_int(void);
double frexp(double x, int *e) { int k = nondet_int(); __CPROVER_assume(k >= -1100 && k <= 1100); *e = k; return x; }
/* strtoul family as far as the library uses it (bases 2, 8, 10, 16; optional sign; stops at the first
 * character that is not a digit of the base; overflow wraps) */
static int dig_(char c) { return (c >= '0' && c <= '9') ? c - '0' : (c >= 'a' && c <= 'f') ? c - 'a' + 10 : (c >= 'A' && c <= 'F') ? c - 'A' + 10 : 99; }
unsigned long long strtoull(const char *s, char **end, int base) {
    const char *p = s; int neg = 0; unsigned long long v = 0; int any = 0;
    while (*p == ' ' || *p == '\t') p++;
    if (*p == '+' || *p == '-') { neg = (*p == '-'); p++; }
    while (dig_(*p) < base) { v = v * (unsigned long long) base + (unsigned long long) dig_(*p); p++; any = 1; }
    if (end) *end = (char *)(any ? p : s);
    return neg ? 0ull - v : v;
}
long long strtoll(const char *s, char **end, int base) { return (long long) strtoull(s, end, base); }
unsigned long strtoul(const char *s, char **end, int base) { return (unsigned long) strtoull(s, end, base); }
long strtol(const char *s, char **end, int base) { return (long) strtoull(s, end, base); }
/* strtod/strtof: only the CONSUMED LENGTH is modelled (C syntax: optional sign, digits, optional
 * fraction, optional exponent = e/E, optional sign, at least one digit - no white space inside);
 * the value is left arbitrary, correct rounding is libc's business */
double nondet_double(void);
double strtod(const char *s, char **end) {
    const char *p = s; int digits = 0;
    while (*p == ' ' || *p == '\t') p++;
    if (*p == '+' || *p == '-') p++;
    while (*p >= '0' && *p <= '9') { p++; digits++; }
    if (*p == '.') { p++; while (*p >= '0' && *p <= '9') { p++; digits++; } }
    if (!digits) { if (end) *end = (char *) s; return 0.0; }
    if (*p == 'e' || *p == 'E') { const char *q = p + 1; if (*q == '+' || *q == '-') q++; if (*q >= '0' && *q <= '9') { while (*q >= '0' && *q <= '9') q++; p = q; } }
    if (end) *end = (char *) p;
    return nondet_double();
}
float strtof(const char *s, char **end) { return (float) strtod(s, end); }
#include <stdlib.h>
char *strndup(const char *s, size_t n) { size_t l = strnlen(s, n), i; char *r = malloc(l + 1); if (!r) return 0; for (i = 0; i < l; i++) r[i] = s[i]; r[l] = 0; return r; }

/* byte-loop memcpy/memmove: with concrete lengths CBMC's symbolic execution constant-folds these, whereas its
 * built-in array-copy model turns the buffer into an opaque array expression and everything parsed afterwards
 * becomes symbolic */
void *memcpy(void *d, const void *s, size_t n) { char *dd = d; const char *ss = s; size_t i; for (i = 0; i < n; i++) dd[i] = ss[i]; return d; }
void *memmove(void *d, const void *s, size_t n) { char *dd = d; const char *ss = s; size_t i;
    /* direction decided on the offsets (integers fold to constants during symbolic execution; the library only moves within one object) */
    if (__CPROVER_POINTER_OFFSET(dd) <= __CPROVER_POINTER_OFFSET(ss)) { for (i = 0; i < n; i++) dd[i] = ss[i]; } else { for (i = n; i > 0; i--) dd[i - 1] = ss[i - 1]; } return d; }
#endif /* VERIF_NATIVE */
