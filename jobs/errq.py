JOBS = []
for sel in (0, 1, 2):
    JOBS.append(dict(name="errq.SCPI_ResultError.small.c%d" % sel, props=["C18", "C01"], kind="B",
      bound="limit lowered from 255 to 10 (redefined in the harness), text <= 5 bytes over {a, \"} at every position, code %s, with/without text; unwinding assertions on" % ("0 'No error'", "1234 (fallback description)", "-350 'Queue overflow'")[sel],
      harness="h_errq.c", entry="h_result_error", contracts=["common.h"], defines=["LIM=10", "TXT=5", "CODESEL=%d" % sel], loops=False,
      cbmc_flags=["--unwind", "22", "--unwinding-assertions"], timeout=1500, cost=30, mem_gb=12,
      what="real SCPI_ResultError: escaping, limit, late cut, prefix property, item accounting"))
JOBS.append(dict(name="errq.SCPI_ResultError.bounded", tier="thorough", props=["C18", "C01"], kind="B",
      bound="limit lowered from 255 to 20 (redefined in the harness), text <= 14 bytes over {a, \"} at every position, 3 codes, with/without text; unwinding assertions on",
      harness="h_errq.c", entry="h_result_error", contracts=["common.h"], defines=["LIM=20", "TXT=14"], loops=False,
      cbmc_flags=["--unwind", "42", "--unwinding-assertions"], timeout=6000, cost=60, mem_gb=24,
      what="real SCPI_ResultError: escaping, limit, late cut, prefix property, item accounting"))
