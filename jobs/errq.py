JOBS = [
 dict(name="errq.SCPI_ResultError.small", props=["C18", "C01"], kind="B",
      bound="limit lowered from 255 to 12 (redefined in the harness), text <= 7 bytes over {a, \"} at every position, 3 codes, with/without text; unwinding assertions on",
      harness="h_errq.c", entry="h_result_error", contracts=["common.h"], defines=["LIM=12", "TXT=7"], loops=False,
      cbmc_flags=["--unwind", "26", "--unwinding-assertions"], timeout=3000, cost=60, mem_gb=24,
      what="real SCPI_ResultError: escaping, limit, late cut, prefix property, item accounting"),
 dict(name="errq.SCPI_ResultError.bounded", tier="thorough", props=["C18", "C01"], kind="B",
      bound="limit lowered from 255 to 20 (redefined in the harness), text <= 14 bytes over {a, \"} at every position, 3 codes, with/without text; unwinding assertions on",
      harness="h_errq.c", entry="h_result_error", contracts=["common.h"], defines=["LIM=20", "TXT=14"], loops=False,
      cbmc_flags=["--unwind", "42", "--unwinding-assertions"], timeout=3000, cost=60, mem_gb=24,
      what="real SCPI_ResultError: escaping, limit, late cut, prefix property, item accounting"),
]
