# Message-level bounded layer: unit selections enumerated per job (all pairs of the 8-entry menu, plus triples
# that exercise two consecutive relative headers), everything else symbolic inside CBMC.
import itertools
NM = 8
SELS = [(a,) for a in range(NM)] + list(itertools.product(range(NM), repeat=2))
SELS += [(0, 2, 2), (1, 2, 2), (5, 2, 2), (0, 2, 4), (4, 2, 2), (0, 7, 2), (3, 2, 2), (0, 3, 2), (6, 2, 0), (2, 2, 2)]
def _j(kind, entry, props, what, sel):
    tag = "".join(str(x) for x in sel) if max(sel) < 10 else "m" + "-".join(str(x) for x in sel)
    return dict(name="msg.%s.%s" % (kind, tag), props=props, kind="B", tier=("thorough" if kind == "chunking" and sel != (0, 2) else "quick"), harness="h_msg.c", entry=entry, contracts=["common.h"], loops=False,
        defines=["SELS=" + ",".join(str(x) for x in sel), "NSEL=%d" % len(sel)],
        cbmc_flags=["--unwind", "44", "--unwinding-assertions"], timeout=1200, cost=5, mem_gb=12, what=what,
        bound="one message built from menu entries %s (menu of 12 unit spellings: absolute, relative, common, with parameter, two items, undefined, malformed list, optional parameter absent/present, surplus parameter) over a 7-entry command table; split point / handler values symbolic; loops unwound 44 with unwinding assertions" % (list(sel),))
JOBS = []
MALF = [(8,)] + [(8, x) for x in range(9)] + [(x, 8) for x in range(8)] + [(0, 8, 2)]
# optional parameter / surplus parameter units: a unit must not see what an earlier unit left unread (C09, C05)
MALF += [(9,), (10,), (11,), (11, 9), (11, 10), (10, 9), (9, 10), (4, 9), (11, 2), (11, 4), (3, 9), (11, 11), (11, 9, 10)]
ISOX = [(11, 9), (10, 9), (11, 10)]
for sel in SELS + MALF:
    JOBS.append(_j("dispatch", "h_msg_dispatch", ["C02", "C06", "C05"], "whole library on one message: handler sequence, parameters, -113, framed output == statement", sel))
for sel in SELS:
    if sel in ((0, 2), (4, 0), (0, 7), (3, 4), (0, 2, 2)):
        JOBS.append(_j("chunking", "h_msg_chunking", ["C08"], "stream (this message + one more) in one call vs split at every point: identical trace and remainder", sel))
for sel in SELS + ISOX:
    if len(sel) == 2 and (sel[0] <= sel[1] or sel in ISOX):
        JOBS.append(_j("isolation", "h_msg_isolation", ["C09"], "message B after message A vs B on a fresh context: identical trace", sel))
for sel in SELS + ISOX:
    if len(sel) >= 2:
        JOBS.append(_j("twolines", "h_msg_twolines", ["C08"], "two messages in one input call vs one call per message: identical trace and remainder", sel))
