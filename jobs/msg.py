def _j(name, entry, props, what, **kw):
    d = dict(name="msg." + name, props=props, kind="B", harness="h_msg.c", entry=entry, contracts=["common.h"], loops=False,
             cbmc_flags=["--unwind", "40", "--unwinding-assertions"], timeout=3000, cost=80, mem_gb=30, what=what,
             bound="messages of 1..2 units from a menu of 8 unit spellings (absolute, relative, common, with parameter, undefined) over a 6-entry command table; lexer/matcher/string loops unwound 40 with unwinding assertions")
    d.update(kw)
    return d
JOBS = [
 _j("dispatch", "h_msg_dispatch", ["C02", "C06", "C05"], "whole library on one symbolic message: handler sequence, parameters, -113, framed output == statement"),
 _j("chunking", "h_msg_chunking", ["C08"], "same stream in one call vs split at every point: identical trace and remainder"),
 _j("isolation", "h_msg_isolation", ["C09"], "message B after message A vs B on a fresh context: identical trace"),
]
