_D = ["USE_MEMORY_ALLOCATION_FREE=0"]
JOBS = [
 dict(name="heap.scpiheap_init", props=["C20", "C01"], kind="PU", bound="memset over a heap of at most 64 bytes unwound (symbolic size <= 64)", harness="h_heap.c", entry="h_scpiheap_init", enforce="scpiheap_init",
      contracts=["heap.h"], defines=_D, loops=False, cbmc_flags=["--unwind", "70", "--unwinding-assertions"], timeout=600, what="initial state: everything free and NUL"),
 dict(name="heap.scpiheap_strndup", props=["C20", "C01"], kind="P", harness="h_heap.c", entry="h_scpiheap_strndup", enforce="scpiheap_strndup",
      contracts=["heap.h"], defines=_D, loops=False, replace=["strnlen", "memcpy"], timeout=1200, cost=20,
      trust=["strnlen, memcpy: assumed contracts (contracts/libc.h)"],
      what="store or refuse: frame (nothing outside the allocated bytes changes), text integrity (witness byte), NUL after the text, reads of the source stay inside its n bytes"),
 dict(name="heap.scpiheap_get_parts", props=["C20", "C01"], kind="P", harness="h_heap.c", entry="h_scpiheap_get_parts", enforce="scpiheap_get_parts",
      contracts=["heap.h"], defines=_D, loops=False, replace=["strnlen"], timeout=1200, cost=10, trust=["strnlen: assumed contract (contracts/libc.h)"],
      what="the one or two parts of a stored text: first part never empty and inside the ring, second part only after a wrap and ends before the ring's NUL"),
 dict(name="heap.scpiheap_free", props=["C20", "C01", "C10"], kind="P", harness="h_heap.c", entry="h_scpiheap_free", enforce="scpiheap_free",
      contracts=["heap.h"], defines=_D, loops=False, replace=["scpiheap_get_parts"], timeout=1200, cost=20, trust=["memset: CBMC library model (array_set / array_replace, no loop)"],
      what="release: exactly the text's bytes (following the wrap-around) become NUL and are accounted, nothing else changes, write position rule; no access outside the ring for ANY ring content that contains a NUL"),
]
