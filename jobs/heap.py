_D = ["USE_MEMORY_ALLOCATION_FREE=0"]
JOBS = [
 dict(name="heap.scpiheap_init", props=["C20", "C01"], kind="PU", bound="memset over a heap of at most 64 bytes unwound (symbolic size <= 64)", harness="h_heap.c", entry="h_scpiheap_init", enforce="scpiheap_init",
      contracts=["heap.h"], defines=_D, loops=False, cbmc_flags=["--unwind", "70", "--unwinding-assertions"], timeout=600, what="initial state: everything free and NUL"),
 dict(name="heap.scpiheap_strndup", props=["C20", "C01"], kind="P", harness="h_heap.c", entry="h_scpiheap_strndup", enforce="scpiheap_strndup",
      contracts=["heap.h"], defines=_D, loops=False, replace=["strnlen", "memcpy"], timeout=1200, cost=20,
      trust=["strnlen, memcpy: assumed contracts (contracts/libc.h)"],
      what="store or refuse: frame (nothing outside the allocated bytes changes), text integrity (witness byte), NUL after the text, reads of the source stay inside its n bytes"),
]
