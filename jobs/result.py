def _j(fn, what, **kw):
    d = dict(name="result." + fn, props=["C06", "C01"], kind="P", harness="h_result.c", entry="h_" + fn, enforce=fn,
             contracts=["result.h"], loops=False, what=what, timeout=600)
    d.update(kw)
    return d
_I32 = ["UInt32ToStrBaseSign"]
JOBS = [
 _j("SCPI_ResultCharacters", "item framing: ',' iff the unit already has an item; payload passed through; one more item"),
 _j("resultUInt32BaseSign", "integer item: delimiter, #B/#Q/#H prefix, digits from a 33-byte buffer", replace=["UInt32ToStrBaseSign"], props=["C06", "C07", "C15", "C01"]),
 _j("resultUInt64BaseSign", "integer item, 65-byte buffer", replace=["UInt64ToStrBaseSign"], props=["C06", "C07", "C15", "C01"]),
 _j("SCPI_ResultInt32", "wrapper", replace=["resultUInt32BaseSign"]),
 _j("SCPI_ResultUInt32Base", "wrapper", replace=["resultUInt32BaseSign"]),
 _j("SCPI_ResultInt64", "wrapper", replace=["resultUInt64BaseSign"]),
 _j("SCPI_ResultUInt64Base", "wrapper", replace=["resultUInt64BaseSign"]),
 _j("SCPI_ResultBool", "wrapper", replace=["resultUInt32BaseSign"]),
 _j("SCPI_ResultFloat", "float item: local buffer large enough for every text the formatter can produce (no truncation)", replace=["SCPI_FloatToStr"], props=["C06", "C07", "C15", "C01"],
    trust=["SCPI_FloatToStr/SCPI_DoubleToStr: assumed contract of the libc snprintf-based formatter (text needs at most 13 / 22 characters)"]),
 _j("SCPI_ResultDouble", "double item: no truncation", replace=["SCPI_DoubleToStr"], props=["C06", "C07", "C15", "C01"],
    trust=["SCPI_FloatToStr/SCPI_DoubleToStr: assumed contract of the libc snprintf-based formatter (text needs at most 13 / 22 characters)"]),
 _j("SCPI_ResultArbitraryBlockHeader", "'#', digit count, decimal byte count; accounting set; not yet an item", replace=["SCPI_UInt32ToStrBase"], props=["C17", "C06", "C01"], kind="PU", bound="strlen over the 12-byte header buffer unwound 13, unwinding assertion on",
    cbmc_flags=["--unwind", "13", "--unwinding-assertions"]),
 _j("SCPI_ResultArbitraryBlockData", "more than announced -> -310 and nothing written; else passed through, item counted once complete", replace=["SCPI_ErrorPush"], props=["C17", "C06", "C01"]),
 _j("SCPI_ResultArbitraryBlock", "header + data", replace=["SCPI_ResultArbitraryBlockHeader", "SCPI_ResultArbitraryBlockData"], props=["C17", "C06", "C07", "C01"]),
]
