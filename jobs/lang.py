JOBS = []
for tok in ("character", "decimal", "nondecimal", "string", "block", "expression", "header"):
    for offs, ln, tier in ((0, 8, "quick"), (2, 8, "quick"), (0, 12, "thorough"), (3, 10, "thorough")):
        JOBS.append(dict(name="lang.%s.o%d.l%d" % (tok, offs, ln), props=["C13", "C01"], kind="B",
            bound="every string of 0..%d bytes over one representative per character class (incl. 0x00 / 0x80 where the recogniser looks at bytes), embedded at offset %d, with arbitrary bytes behind the input; unwinding assertions on" % (ln, offs),
            harness="h_lang.c", entry="h_lang_" + tok, contracts=["common.h"], defines=["LEN=%d" % ln, "OFFS=%d" % offs], loops=False,
            cbmc_flags=["--unwind", str(ln + 6), "--unwinding-assertions"], tier=tier, timeout=1800, cost=10, mem_gb=12,
            what="real recogniser == reference recogniser written from IEEE 488.2 section 7: longest prefix, rollback, type, extent"))
for ln, tier in ((5, "quick"), (6, "thorough"), (7, "thorough")):
    JOBS.append(dict(name="lang.unit.l%d" % ln, props=["C13", "C05", "C01"], kind="B",
        bound="every input of 1..%d bytes over {a : ? * blank 1 , ; NL \" x} with an arbitrary byte behind it; unwinding assertions on" % ln,
        harness="h_unit.c", entry="h_unit", contracts=["common.h"], defines=["LEN=%d" % ln], loops=False,
        cbmc_flags=["--unwind", str(ln + 6), "--unwinding-assertions"], tier=tier, timeout=2400, cost=20, mem_gb=12,
        what="real unit detection == reference: acceptance, extent incl. terminator, termination kind, header and data extents, parameter count, progress"))
