_LEX = ["scpiLex_WhiteSpace", "scpiLex_NondecimalNumericData", "scpiLex_CharacterProgramData", "scpiLex_DecimalNumericProgramData",
        "scpiLex_SuffixProgramData", "scpiLex_StringProgramData", "scpiLex_ArbitraryBlockProgramData", "scpiLex_ProgramExpression"]
def _j(fn, what, **kw):
    d = dict(name="parser." + fn, props=["C13", "C05", "C01"], kind="P", harness="h_parser_lex.c", entry="h_" + fn, enforce=fn,
             contracts=["parser_lex.h"], loops=True, what=what, timeout=240)
    d.update(kw)
    return d
JOBS = [
 _j("scpiParser_parseProgramData", "one data item: alternative chain, suffix merge, result == bytes consumed (so list items are delivered whole)", replace=_LEX, timeout=900, cost=20),
 _j("scpiParser_parseAllProgramData", "comma-separated list with loop contract: extent == displacement, parameter count", replace=["scpiParser_parseProgramData", "scpiLex_Comma"], need_classes=["loop_invariant", "loop_decreases"], timeout=1500, cost=30),
 _j("scpiParser_detectProgramMessageUnit", "unit = header [ws data-list] (; | NL | end); progress >= 1 byte; tokens inside the unit; termination kind", props=["C13", "C05", "C08", "C01", "C02"], timeout=900, cost=20,
    replace=["scpiLex_WhiteSpace", "scpiLex_ProgramHeader", "scpiParser_parseAllProgramData", "scpiLex_NewLine", "scpiLex_Semicolon", "scpiLex_IsEos"]),
]
