# C17: the binary array formatter under contract with loop contracts - element count unbounded (the arr.* jobs are the bounded layer).
# Proof split: one element size per job; accounting (item count, block length) and byte order (watch position) separately.
JOBS = []
for host, fmtname, flags in (("le", "SCPI_FORMAT_LITTLEENDIAN", []), ("be", "SCPI_FORMAT_BIGENDIAN", ["--big-endian"])):
    for sz in (1, 2, 4, 8):
        for part, defs in (("count", ["ARR_NOWATCH"]), ("bytes", [])):
            if sz == 0 and part == "bytes": continue
            if host == "be" and part == "count": continue
            JOBS.append(dict(name="arrp.produceResultArrayBinary.%s.s%d.%s" % (host, sz, part), props=["C17", "C06", "C01"], kind="P", harness="h_arrp.c", entry="h_produceResultArrayBinary",
                enforce="produceResultArrayBinary", contracts=["array.h"], defines=["HOST_FORMAT=" + fmtname, "ARR_FIX=%d" % sz] + defs, loops=True, cc_flags=flags,
                replace=["SCPI_ResultArbitraryBlock", "SCPI_ResultArbitraryBlockHeader", "SCPI_ResultArbitraryBlockData", "SCPI_ErrorPush"],
                need_classes=["loop_invariant", "loop_decreases"], timeout=2400, cost=40, mem_gb=19, est_gb=4,
                dead_loops=["produceResultArrayBinary:%d" % k for k, lsz in ((1, 2), (2, 4), (3, 8)) if lsz != sz],
                bound="element count up to 10^8, block below 10^9 bytes (the header formatter's limit); error queue capacity symbolic",
                what=("element size %d, %s host model, every count and both formats: " % (sz, host) if sz else "element sizes other than 1/2/4/8: -310, nothing written; ") +
                     ("one complete block = one item, header + count*size bytes" if part == "count" else "every data byte is the source byte the requested format puts there")))

for bad in (0, 3, 5, 6, 7, 9, 10, 11, 12, 13, 14, 15, 16):
    JOBS.append(dict(name="arrp.produceResultArrayBinary.le.bad%d" % bad, props=["C17", "C01"], kind="P", harness="h_arrp.c", entry="h_produceResultArrayBinary",
        enforce="produceResultArrayBinary", contracts=["array.h"], defines=["HOST_FORMAT=SCPI_FORMAT_LITTLEENDIAN", "ARR_FIX=0", "ARR_BAD=%d" % bad, "ARR_NOWATCH"], loops=True,
        replace=["SCPI_ResultArbitraryBlock", "SCPI_ResultArbitraryBlockHeader", "SCPI_ResultArbitraryBlockData", "SCPI_ErrorPush"], timeout=1200, cost=10, mem_gb=19, est_gb=3, dead_loops=["*"],
        bound="element size fixed to %d (one job per size 0..16 other than 1/2/4/8); count and format symbolic" % bad,
        what="an element size the format does not know: -310 queued, nothing written, no item counted"))
