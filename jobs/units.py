def _j(name, entry, what, **kw):
    d = dict(name="units." + name, props=["C04", "C01"], kind="PU", harness="h_units.c", entry=entry, contracts=["common.h"], loops=False,
             cbmc_flags=["--unwind", "110", "--unwinding-assertions"], timeout=3000, cost=40, mem_gb=24, what=what,
             bound="finite tables: every row (symbolic index), every letter-case mask, 0..2 blanks; table and string loops fully unwound with unwinding assertions")
    d.update(kw)
    return d
JOBS = [
 _j("table", "h_units", "real scpi_units_def vs golden table: accepted, base unit, multiplier (first match wins, so a shadowing/reordered/edited row fails)"),
 _j("unknown", "h_units_unknown", "unknown suffix -131", props=["C05", "C04"]),
 _j("special", "h_special", "nine special mnemonics, short and long form, any case -> tag"),
]
