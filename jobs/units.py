def _j(name, entry, what, **kw):
    d = dict(name="units." + name, props=["C04", "C01"], kind="PU", harness="h_units.c", entry=entry, contracts=["common.h"], loops=False,
             cbmc_flags=["--unwind", "110", "--unwinding-assertions"], timeout=3000, cost=40, mem_gb=24, what=what,
             bound="finite tables: every row (symbolic index), every letter-case mask, 0..2 blanks; table and string loops fully unwound with unwinding assertions")
    d.update(kw)
    return d
JOBS = [
 _j("table", "h_units", "real scpi_units_def vs golden table: accepted, base unit, multiplier (first match wins, so a shadowing/reordered/edited row fails)"),
 _j("unknown", "h_units_unknown", "unknown suffix -131", props=["C05", "C04"]),
 _j("special", "h_special", "nine special mnemonics, short and long form, any case -> tag"),
 _j("names", "h_names", "every name of the real unit / special tables is short and the unit table is terminated", props=["C15", "C04"]),
 dict(name="units.SCPI_NumberToStr.l12", props=["C15", "C01"], kind="PU", bound="string loops over the 12-byte buffer and the <= 9-character names unwound 14, unwinding assertions on",
      harness="h_units_c.c", entry="h_SCPI_NumberToStr", enforce="SCPI_NumberToStr", contracts=["units.h"], defines=["NTS_MAXLEN=12"], loops=False,
      replace=["SCPI_DoubleToStr", "translateUnitInverse", "SCPI_ChoiceToName", "strnlen"], cbmc_flags=["--unwind", "14", "--unwinding-assertions"], timeout=1500, cost=30, mem_gb=24,
      assumes=["translateUnitInverse / SCPI_ChoiceToName enter as the abstraction 'NULL or a NUL-terminated text of at most 7 / 9 characters' (units.names proves the real tables satisfy it)",
               "SCPI_DoubleToStr: assumed contract of the libc snprintf-based formatter"],
      what="number with unit / special name: frame = the caller's len bytes (strncpy/strncat/strlen are CBMC's models), result < len, NUL-terminated; buffer length 0..12 symbolic"),
 dict(name="units.SCPI_NumberToStr", props=["C15", "C01"], kind="PU", tier="thorough", bound="string loops over the 28-byte buffer and the <= 9-character names unwound 32, unwinding assertions on",
      harness="h_units_c.c", entry="h_SCPI_NumberToStr", enforce="SCPI_NumberToStr", contracts=["units.h"], loops=False,
      replace=["SCPI_DoubleToStr", "translateUnitInverse", "SCPI_ChoiceToName", "strnlen"], cbmc_flags=["--unwind", "32", "--unwinding-assertions"], timeout=1500, cost=30, mem_gb=24,
      assumes=["translateUnitInverse / SCPI_ChoiceToName enter as the abstraction 'NULL or a NUL-terminated text of at most 7 / 9 characters' (units.names proves the real tables satisfy it)",
               "SCPI_DoubleToStr: assumed contract of the libc snprintf-based formatter"],
      what="number with unit / special name: frame = the caller's len bytes (strncpy/strncat/strlen are CBMC's models), result < len, NUL-terminated; buffer length 0..28 symbolic"),
]
