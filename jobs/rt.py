def _j(name, entry, what, bound, **kw):
    d = dict(name="rt." + name, props=["C07"], kind="PU", harness="h_rt.c", entry=entry, contracts=["common.h"], loops=False,
             timeout=3000, cost=50, mem_gb=24, what=what, bound=bound)
    d.update(kw)
    d["cbmc_flags"] = ["--unwind", str(d.pop("unwind")), "--unwinding-assertions"]
    return d
_FULL = "all 2^%d values; digit, lexer and conversion loops bounded by the operand width, fully unwound with unwinding assertions (complete)"
JOBS = [
 _j("u32.b16", "h_rt_u32", "format -> lex -> decode, base 16", _FULL % 32, defines=["RTBASE=16"], unwind=13),
 _j("u32.b8", "h_rt_u32", "format -> lex -> decode, base 8", _FULL % 32, defines=["RTBASE=8"], tier="thorough", unwind=15),
 _j("u32.b2", "h_rt_u32", "format -> lex -> decode, base 2", _FULL % 32, defines=["RTBASE=2"], tier="thorough", unwind=37),
 _j("u64.b16", "h_rt_u64", "format -> lex -> decode, 64 bit base 16", _FULL % 64, defines=["RTBASE=16"], tier="thorough", unwind=21),
 _j("i32.b10.bounded", "h_rt_i32", "signed decimal round trip", "|value| <= 99999 only (decimal value exactness is not decided on the full domain, see C14)", kind="B", defines=["VALMAX=99999"], unwind=14),
 _j("hexdouble", "h_rt_hex_double", "#H literal -> double exact (through the 64-bit integer path)", "all values below 2^53, loops fully unwound", props=["C04", "C07"], unwind=21),
 _j("bool", "h_rt_bool", "boolean round trip", "both values", unwind=13),
 _j("text", "h_rt_text", "quoted text with both quote characters, blanks and letters: doubling o lexing o un-doubling = identity", "text of 0..4 characters over {\" ' a blank}", kind="B", unwind=14),
 _j("block", "h_rt_block", "definite-length block with arbitrary bytes", "0..3 data bytes, all byte values", kind="B", unwind=13),
]
