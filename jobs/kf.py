def _j(name, entry, props, what, bound, **kw):
    d = dict(name="kf." + name, props=props, kind="B", harness="h_kf.c", entry=entry, contracts=["common.h"], loops=False,
             cbmc_flags=["--unwind", "40", "--unwinding-assertions"], timeout=1800, cost=30, mem_gb=24, what=what, bound=bound)
    d.update(kw)
    return d
JOBS = [
 _j("c04_literal", "h_kf_c04_literal", ["C04"], "decimal literal converted as a whole (consumed length == literal length), blanks inside the literal excluded", "literals <= 5 bytes over {1 2 . E + blank}; strtod modelled for its consumed length only"),
 _j("c04_literal.confirm", "h_kf_c04_literal", ["C04"], "confirmation: literal with white space around the exponent is converted as a prefix", "same", defines=["CONFIRM"], known_finding="C04-ws-exponent"),
 _j("c05_reader", "h_kf_c05_reader", ["C05"], "integer reader: failure only with an error queued; literals starting with '.' excluded", "parameter texts <= 4 bytes over {1 . - A blank ,}"),
 _j("c05_reader.confirm", "h_kf_c05_reader", ["C05"], "confirmation: '.5' given to an integer reader fails with nothing queued", "same", defines=["CONFIRM"], known_finding="C05-int-reader-dot"),
 _j("c05_block_flush", "h_kf_c05_block_flush", ["C05"], "an incomplete block at a flush queues a command error and reaches no handler (was a known finding until fix 290ad02)", "one fixed stream"),
 _j("c08_quoted_newline.confirm", "h_kf_c08_quoted_newline", ["C08"], "confirmation: newline inside a quoted string is cut differently per chunking", "one fixed stream, split right after the embedded newline", known_finding="C08-quoted-newline"),
]
