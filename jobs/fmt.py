# C14 (and the integer part of C15/C07/C17): harness-style jobs, loops bounded by the operand width.
JOBS = []
def _u(w): return ["--unwind", str(w + 4), "--unwinding-assertions"]
for w in (32, 64):
    for base in (2, 8, 10, 16, 7):
        quick = (w == 32)
        JOBS.append(dict(name="fmt.struct.w%d.b%d" % (w, base), props=["C14", "C15", "C01"], kind="PU",
            bound="digit loops bounded by the operand width: unwound %d with unwinding assertions (complete); all values, sign flag, len 0..72 symbolic; base fixed to %d%s" % (w + 4, base, " (an 'other' base, meaning 10)" if base == 7 else ""),
            harness="h_fmt.c", entry="h_fmt_struct", contracts=["common.h"], defines=["W=%d" % w, "FIXBASE=%d" % base], loops=False,
            cbmc_flags=_u(w), tier="quick" if quick else "thorough", timeout=1800, cost=20,
            what="length, truncation, NUL, canaries beyond the buffer, sign, digit range, no leading zero"))
    for base in (2, 8, 16):
        quick = (w == 32)
        JOBS.append(dict(name="fmt.value.w%d.b%d" % (w, base), props=["C14", "C07", "C17"], kind="PU",
            bound="unwound %d with unwinding assertions (complete), all 2^%d values" % (w + 4, w),
            harness="h_fmt.c", entry="h_fmt_value", contracts=["common.h"], defines=["W=%d" % w, "FIXBASE=%d" % base], loops=False,
            cbmc_flags=_u(w), tier="quick" if quick else "thorough", timeout=1800, cost=20,
            what="value exactness: decoding the digits by shifts gives back the value"))
    JOBS.append(dict(name="fmt.value.w%d.b10.bounded" % w, props=["C14", "C07", "C17"], kind="B",
            bound="|value| < 10^6 only (base-10 value exactness over the full domain was not decided by any back end; see DESIGN C14)",
            harness="h_fmt.c", entry="h_fmt_value", contracts=["common.h"], defines=["W=%d" % w, "FIXBASE=10", "VALMAX=999999"], loops=False,
            cbmc_flags=_u(w), timeout=900, cost=10, tier="quick" if w == 32 else "thorough",
            what="value exactness base 10 by Horner re-evaluation, bounded range"))
    JOBS.append(dict(name="fmt.wrappers.w%d" % w, props=["C14", "C15"], kind="PU", bound="as above",
            harness="h_fmt.c", entry="h_fmt_wrappers", contracts=["common.h"], defines=["W=%d" % w], loops=False,
            cbmc_flags=_u(w), timeout=3000, cost=10, tier="thorough", what="public wrappers delegate with the right sign flag / base"))
for fn, w in (("UInt32ToStrBaseSign", 32), ("UInt64ToStrBaseSign", 64), ("SCPI_UInt32ToStrBase", 32)):
    JOBS.append(dict(name="fmt.contract." + fn, props=["C14", "C15", "C06", "C17", "C01"], kind="PU",
        bound="digit loops unwound %d with unwinding assertions (complete)" % (w + 4),
        harness="h_fmt.c", entry="h_" + fn, enforce=fn, contracts=["result.h"], defines=["W=%d" % w], loops=False,
        cbmc_flags=_u(w), timeout=3000, cost=15, tier="quick" if w == 32 else "thorough", mem_gb=12 if w == 32 else 40,
        what="shape contract used by every caller: result <= len, NUL if room, frame = the caller's buffer, first character is a digit or '-', decimal digit count"))

for w in (32, 64):
    JOBS.append(dict(name="fmt.sign.w%d" % w, props=["C14", "C07"], kind="PU", bound="digit loops unwound %d with unwinding assertions (complete), all values/bases/sign flags" % (w + 4),
        harness="h_fmt.c", entry="h_fmt_sign", contracts=["common.h"], defines=["W=%d" % w, "FIXBASE=10"], loops=False, cbmc_flags=_u(w), timeout=3000, cost=15, tier="quick" if w == 32 else "thorough",
        what="sign character rule over the full domain (base 10)"))

JOBS.append(dict(name="fmt.sign.w64.lo", props=["C14", "C07"], kind="B", bound="|value| < 2^34 only (the full 64-bit domain is fmt.sign.w64, thorough tier); digit loops unwound 68 with unwinding assertions",
    harness="h_fmt.c", entry="h_fmt_sign", contracts=["common.h"], defines=["W=64", "FIXBASE=10", "SIGNLO=34"], loops=False, cbmc_flags=_u(64), timeout=1800, cost=15, tier="quick",
    what="sign character rule of the 64-bit formatter around the 32-bit boundary (base 10)"))
