_PATS = [("short1", "Ab[:Cd#]", 6, "quick"), ("idn", "*IDN?", 6, "quick"), ("syserr", "SYSTem:ERRor[:NEXT]?", 8, "quick"), ("meas", "[:MEASure]:VOLTage:DC?", 8, "thorough"),
         ("outp", "OUTPut#:FM[:MOD#]", 8, "quick"), ("tnum", "TEST#:NUMbers#", 8, "thorough"), ("choice", "TEST:CHOice?", 8, "thorough")]
JOBS = []
for tag, pat, hlen, tier in _PATS:
    JOBS.append(dict(name="match." + tag, props=["C03", "C02", "C01"], kind="B",
        bound="pattern %s, every header <= %d bytes over the pattern's letters (both cases) and : ? * 0 9 _ X; numbers capacity 3; unwinding assertions on" % (pat, hlen),
        harness="h_match.c", entry="h_match", contracts=["common.h"], defines=['PATTERN="%s"' % pat, "HLEN=%d" % hlen], loops=False,
        cbmc_flags=["--unwind", "26", "--unwinding-assertions"], tier=tier, timeout=3000, cost=60, mem_gb=24,
        what="real matchCommand == reference matcher written from the statement (acceptance and suffix numbers)"))
