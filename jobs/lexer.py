_RUNS = ["skipWs", "skipNumbers", "skipAlpha", "skipHexNum", "skipOctNum", "skipBinNum", "skipProgramExpression", "skipProgramMnemonic", "skipQuoteProgramData"]
_PROPS = ["C13", "C01"]
def _j(fn, what, **kw):
    d = dict(name="lexer." + fn, props=list(_PROPS), kind="P", harness="h_lexer.c", entry="h_" + fn, enforce=fn,
             contracts=["lexer.h"], loops=True, defines=["LEX_BYTES"], solver="minisat", what=what, replayer="lexer", timeout=900)
    d.update(kw)
    return d
JOBS = [_j(f, "character-class run: displacement, class content (witness), local maximality, termination measure; length <= 10^6, all byte values",
           need_classes=["loop_invariant", "loop_decreases"] if f != "skipQuoteProgramData" else ["loop_invariant"]) for f in _RUNS]
JOBS += [
 _j("skipMantisa", "[+-]? digits ( . digits )? : digit count vs displacement, content", replace=["skipNumbers"]),
 _j("skipExponent", "[eE] ws* [+-]? digits", replace=["skipNumbers", "skipWs"]),
 _j("skipCommonProgramHeader", "* mnemonic", replace=["skipProgramMnemonic"]),
 _j("skipCompoundProgramHeader", ":? mnemonic (: mnemonic)* with loop contract", replace=["skipProgramMnemonic"], need_classes=["loop_invariant"]),
 _j("scpiLex_IsEos", "end-of-input test"),
 _j("scpiLex_WhiteSpace", "token span = consumed blanks", replace=["skipWs"], props=_PROPS + ["C05"]),
 _j("scpiLex_ProgramHeader", "header token: type, span, rollback, '?' handling, last byte", replace=["skipCommonProgramHeader", "skipCompoundProgramHeader"], props=_PROPS + ["C02"]),
 _j("scpiLex_CharacterProgramData", "mnemonic token", need_classes=["loop_invariant"], props=_PROPS + ["C05"]),
 _j("scpiLex_DecimalNumericProgramData", "decimal token: mantissa, optional exponent with rollback", replace=["skipMantisa", "skipExponent", "skipWs"], props=_PROPS + ["C05", "C07", "C04"]),
 _j("scpiLex_SuffixProgramData", "relaxed suffix token (loop contract)", replace=["skipAlpha"], need_classes=["loop_invariant"], props=_PROPS + ["C05", "C04"]),
 _j("scpiLex_NondecimalNumericData", "#H/#Q/#B token: prefix excluded from the extent, result counts it", replace=["skipHexNum", "skipOctNum", "skipBinNum"], props=_PROPS + ["C05", "C07", "C04"]),
 _j("scpiLex_StringProgramData", "quoted string: both quote kinds, doubled quotes, rollback", replace=["skipQuoteProgramData"], props=_PROPS + ["C05", "C07"]),
 _j("scpiLex_ArbitraryBlockProgramData", "definite-length block: header digits, declared length vs end of input, incomplete vs invalid", kind="PU",
    bound="header-digit loop fully unwound (at most 9 digits, unwinding assertion on)", loops=False, cbmc_flags=["--unwind", "11", "--unwinding-assertions"], props=_PROPS + ["C05", "C07", "C08"]),
 _j("scpiLex_ProgramExpression", "parenthesised flat expression", replace=["skipProgramExpression"], props=_PROPS + ["C05", "C19"]),
 _j("scpiLex_Comma", "single character token", props=_PROPS + ["C05"]),
 _j("scpiLex_Semicolon", "single character token"),
 _j("scpiLex_Colon", "single character token", props=_PROPS + ["C19"]),
 _j("scpiLex_SpecificCharacter", "single character token", props=_PROPS + ["C19"]),
 _j("scpiLex_NewLine", "CR, LF or CR LF"),
]

# thorough tier: the same jobs with the character-class CONTENT clauses (witness over the whole consumed range) enabled
_CONTENT = []
for _jb in JOBS:
    if _jb["name"] in ("lexer.scpiLex_IsEos", "lexer.scpiLex_Comma", "lexer.scpiLex_Semicolon", "lexer.scpiLex_Colon", "lexer.scpiLex_SpecificCharacter", "lexer.scpiLex_NewLine"):
        continue
    _c = dict(_jb); _c["name"] = _jb["name"] + ".content"; _c["defines"] = ["LEX_BYTES", "LEX_CONTENT"]; _c["tier"] = "thorough"; _c["timeout"] = 2400
    _c["props"] = ["C13"]; _c["what"] = _jb["what"] + " + every consumed byte belongs to the token's character class (witness index)"
    _CONTENT.append(_c)
JOBS += _CONTENT
