JOBS = []
for tag, ccf in (("le", []), ("be", ["--big-endian"])):
    for which in range(4):
        for fmt in (0, 1):
            for count in (0, 1, 3):
                JOBS.append(dict(name="arr.binary.%s.t%d.f%d.n%d" % (tag, which, fmt, count), props=["C17", "C06", "C01"], kind="B",
                    bound="%d elements of size %d with symbolic values, format %s, host %s-endian; unwinding assertions on" % (count, (1, 2, 4, 8)[which], "NORMAL" if fmt else "SWAPPED", "little" if tag == "le" else "big"),
                    harness="h_arr.c", entry="h_array_binary", contracts=["common.h"], cc_flags=ccf, loops=False,
                    defines=["WHICH=%d" % which, "FMTSEL=%d" % fmt, "COUNT=%d" % count],
                    cbmc_flags=["--unwind", "30", "--unwinding-assertions"], timeout=900, cost=3, mem_gb=12,
                    what="real array result chain: header, byte count, element byte order, item accounting"))
JOBS.append(dict(name="arr.swap", props=["C17"], kind="P", harness="h_arr.c", entry="h_swap", contracts=["common.h"], loops=False, timeout=600,
    what="SCPI_Swap16/32/64 are the byte reversals (loop-free, full domain)"))
