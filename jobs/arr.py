JOBS = []
for tag, ccf in (("le", []), ("be", ["--big-endian"])):
    JOBS.append(dict(name="arr.binary." + tag, props=["C17", "C06", "C01"], kind="B",
        bound="0..2 elements with symbolic values, element sizes 1/2/4/8, both formats, host %s-endian; unwinding assertions on" % ("little" if tag == "le" else "big"),
        harness="h_arr.c", entry="h_array_binary", contracts=["common.h"], cc_flags=ccf, loops=False,
        defines=["NEL=2"], cbmc_flags=["--unwind", "14", "--unwinding-assertions"], timeout=3000, cost=40, mem_gb=24,
        what="real array result chain: header, byte count, element byte order, item accounting"))
JOBS.append(dict(name="arr.swap", props=["C17"], kind="P", harness="h_arr.c", entry="h_swap", contracts=["common.h"], loops=False, timeout=600,
    what="SCPI_Swap16/32/64 are the byte reversals (loop-free, full domain)"))
