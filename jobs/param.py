def _j(fn, what, **kw):
    d = dict(name="param." + fn, props=["C05", "C01"], kind="P", harness="h_param.c", entry="h_" + fn, enforce=fn,
             contracts=["param.h"], loops=True, what=what, timeout=900, cost=10)
    d.update(kw)
    return d
_CONV = ["strBaseToInt32", "strBaseToUInt32", "strBaseToInt64", "strBaseToUInt64", "strToFloat", "strToDouble"]
_GAP = "callers of strBaseTo*/strTo* establish only that the literal's first byte is readable; NUL-boundedness of the parameter buffer (required where the helpers are enforced, conv.*) is established at the SCPI_Input -> SCPI_Parse boundary (dispatch.SCPI_Input) but not carried through the handler and parameter contracts"
JOBS = [
 _j("SCPI_Parameter", "parameter cursor: end (-109 / optional absent), separator (-103), classification (-151), item delivered whole", replace=["SCPI_ErrorPush", "scpiLex_Comma", "scpiParser_parseProgramData"]),
 _j("SCPI_ParamIsNumber", "token class test", props=["C05", "C04", "C01"]),
 _j("ParamSignToUInt32", "token class -> base 16/8/2/10 and signedness", replace=["SCPI_ErrorPush", "strBaseToInt32", "strBaseToUInt32"], props=["C05", "C04", "C01"], assumes=[_GAP]),
 _j("ParamSignToUInt64", "token class -> base and signedness", replace=["SCPI_ErrorPush", "strBaseToInt64", "strBaseToUInt64"], props=["C05", "C04", "C01"], assumes=[_GAP]),
 _j("SCPI_ParamToInt32", "wrapper", replace=["ParamSignToUInt32"], props=["C05", "C04", "C01"]),
 _j("SCPI_ParamToUInt32", "wrapper", replace=["ParamSignToUInt32"], props=["C05", "C04", "C01"]),
 _j("SCPI_ParamToInt64", "wrapper", replace=["ParamSignToUInt64"], props=["C05", "C04", "C01"]),
 _j("SCPI_ParamToUInt64", "wrapper", replace=["ParamSignToUInt64"], props=["C05", "C04", "C01"]),
 _j("SCPI_ParamToFloat", "numeric token -> float (nondecimal through the 32-bit integer path)", replace=["SCPI_ErrorPush", "SCPI_ParamToUInt32", "strToFloat"], props=["C05", "C04", "C01"], assumes=[_GAP]),
 _j("SCPI_ParamToDouble", "numeric token -> double (nondecimal through the 64-bit integer path)", replace=["SCPI_ErrorPush", "SCPI_ParamToUInt64", "strToDouble"], props=["C05", "C04", "C01"], assumes=[_GAP]),
 _j("ParamSignUInt32", "typed reader decision table", replace=["SCPI_ErrorPush", "SCPI_Parameter", "SCPI_ParamIsNumber", "ParamSignToUInt32"]),
 _j("ParamSignUInt64", "typed reader decision table", replace=["SCPI_ErrorPush", "SCPI_Parameter", "SCPI_ParamIsNumber", "ParamSignToUInt64"]),
 _j("SCPI_ParamInt32", "wrapper", replace=["ParamSignUInt32"]),
 _j("SCPI_ParamUInt32", "wrapper", replace=["ParamSignUInt32"]),
 _j("SCPI_ParamInt64", "wrapper", replace=["ParamSignUInt64"]),
 _j("SCPI_ParamUInt64", "wrapper", replace=["ParamSignUInt64"]),
 _j("SCPI_ParamFloat", "typed reader decision table", replace=["SCPI_ErrorPush", "SCPI_Parameter", "SCPI_ParamIsNumber", "SCPI_ParamToFloat"]),
 _j("SCPI_ParamDouble", "typed reader decision table", replace=["SCPI_ErrorPush", "SCPI_Parameter", "SCPI_ParamIsNumber", "SCPI_ParamToDouble"]),
 _j("SCPI_ParamCharacters", "text reader: quotes stripped, extent inside the item", replace=["SCPI_ErrorPush", "SCPI_Parameter"]),
 _j("SCPI_ParamArbitraryBlock", "block reader: -104 for other types", replace=["SCPI_ErrorPush", "SCPI_Parameter"]),
 _j("SCPI_ParamCopyText", "bounded un-quoting copy (loop contract): at most buffer_len bytes, NUL when shorter", replace=["SCPI_ErrorPush", "SCPI_Parameter"], props=["C05", "C15", "C07", "C01"], need_classes=["loop_invariant"]),
]
for _fn, _lib in (("strBaseToInt32", "strtol"), ("strBaseToUInt32", "strtoul"), ("strBaseToInt64", "strtoll"), ("strBaseToUInt64", "strtoull"), ("strToFloat", "strtof"), ("strToDouble", "strtod")):
    JOBS.append(dict(name="conv." + _fn, props=["C04", "C05", "C01"], kind="P", harness="h_conv.c", entry="h_" + _fn, enforce=_fn, contracts=["param.h"], defines=["CONV_ENFORCE"], loops=False,
        replace=[_lib], timeout=600, cost=5, trust=["%s: assumed libc contract (contracts/libc.h), observed through ghosts" % _lib],
        
        what="exactly one call of %s with the caller's base; stores what it returned, returns the characters it used" % _lib))
