# C10 (malloc build) and C20 (static-heap build) bounded history jobs
_SEQS = ["PPPO", "PNPOO", "LPOLO", "PPPPOLOOO", "PLPCLO", "PPOPPPOO", "LLOL", "NNNOO", "PPCPO", "PLPPOOLO"]
def _j(name, cfg, defs, cap, what, bound, **kw):
    d = dict(name="hist.%s.%s" % (cfg, name), props=["C10", "C11"] if cfg == "malloc" else ["C20", "C10"], kind="B", harness="h_hist.c", entry="h_history",
             contracts=["common.h"], defines=defs + ["CAP=%d" % cap], loops=False, timeout=1800, cost=15, mem_gb=12, what=what, bound=bound,
             cbmc_flags=["--unwind", "50", "--unwinding-assertions"] + (["--memory-leak-check"] if cfg == "malloc" else []))
    d.update(kw)
    return d
JOBS = []
for cfg, defs in (("malloc", []), ("heap", ["USE_MEMORY_ALLOCATION_FREE=0", "HEAPSZ=8"])):
    for cap in (2, 3):
        for s in _SEQS:
            JOBS.append(_j("c%d.%s" % (cap, s), cfg, defs + ['OPS="%s"' % s], cap,
                "operation sequence %s on a queue of capacity %d vs reference FIFO: codes, texts, counts, QMA bit%s" % (s, cap, "; allocator model with failing malloc, double-free/use-after-free/leak checks" if cfg == "malloc" else "; 8-byte static heap with canaries, full reuse after drain"),
                "one fixed operation sequence (P/L push with 1/5-character text, N push without, O pop via SYST:ERR?, C clear), capacity %d, then drain" % cap,
                tier=("quick" if (cap == 3 or s in ("PPPO", "PNPOO")) else "thorough") if cfg == "heap" else ("quick" if (cap == 2 and s in ("PPPO", "PNPOO")) else "thorough"),
                mem_gb=12 if cfg == "heap" else (30 if s in ("PPPO", "PNPOO") else 44), timeout=1800 if cfg == "heap" else 3000))
    JOBS.append(_j("sym4", cfg, defs + ["NOPS=4"], 2, "any 4 operations from {P, L, N, O, C} on capacity 2 vs reference FIFO", "4 symbolically chosen operations, capacity 2, then drain", tier="thorough", timeout=3000, mem_gb=24))
