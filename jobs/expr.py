JOBS = []
for body, tier in ((4, "quick"), (5, "thorough"), (7, "thorough")):
    for which in ("numeric", "channel"):
        if which == "numeric" and body == 4:
            continue
        JOBS.append(dict(name="expr.%s.b%d" % (which, body), props=["C19", "C01"], kind="B",
            bound="expression body <= %d bytes over {1 2 - . : , ! @ blank a}, every index 0..%d%s; unwinding assertions on" % (body, body + 1, ", capacity 0..3" if which == "channel" else ""),
            harness="h_expr.c", entry="h_expr_" + which, contracts=["common.h"], defines=["BODY=%d" % body], loops=False,
            cbmc_flags=["--unwind", str(body + 6), "--unwinding-assertions"], tier=("quick" if (which == "numeric" and body == 5) else "thorough"), timeout=3000, cost=40, mem_gb=24,
            what="real SCPI_Expr*ListEntry* over the real lexer == reference list parser written from the statement"))
