JOBS = []
for body, tier in ((4, "quick"), (5, "thorough"), (7, "thorough")):
    for which in ("numeric", "channel"):
        if which == "numeric" and body in (3, 4):
            continue
        JOBS.append(dict(name="expr.%s.b%d" % (which, body), props=["C19", "C01"], kind="B",
            bound="expression body <= %d bytes over {1 2 - . : , ! @ blank a}, every index 0..%d%s; unwinding assertions on" % (body, body + 1, ", capacity 0..3" if which == "channel" else ""),
            harness="h_expr.c", entry="h_expr_" + which, contracts=["common.h"], defines=["BODY=%d" % body], loops=False,
            cbmc_flags=["--unwind", str(body + 6), "--unwinding-assertions"], tier=("quick" if (which == "numeric" and body == 5) else ("off" if which == "channel" else "thorough")), timeout=3000, cost=40, mem_gb=24,
            what="real SCPI_Expr*ListEntry* over the real lexer == reference list parser written from the statement"))

# channel lists, enumerated: body length and entry index fixed per job (the all-symbolic jobs above exhaust the solver's memory)
for n in range(0, 6):
    for idx in range(0, 3):
        if idx > (n + 1) // 2: continue   # an entry needs at least one byte and a comma; higher indices are NO_MORE/ERROR like index (n+1)/2
        JOBS.append(dict(name="expr.channel.n%d.i%d" % (n, idx), props=["C19", "C01"], kind="B",
            bound="channel-list body of exactly %d bytes over {1 2 - . : , ! @ blank a}, entry index %d, capacity 0..3 symbolic; unwinding assertions on" % (n, idx),
            harness="h_expr.c", entry="h_expr_channel", contracts=["common.h"], defines=["BODY=%d" % max(n, 1), "FIXN=%d" % n, "FIXI=%d" % idx], loops=False,
            cbmc_flags=["--unwind", str(n + 6), "--unwindset", "SCPI_ErrorPushEx.0:12", "--unwinding-assertions"], tier=("quick" if n <= 3 else "thorough"), timeout=3000, cost=30, mem_gb=19, est_gb=9,
            what="real SCPI_ExprChannelListEntry over the real lexer == reference channel-list parser written from the statement"))
