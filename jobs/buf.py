def _j(name, entry, what, unwind, **kw):
    d = dict(name="buf." + name, props=["C15", "C01"], kind="B", harness="h_buf.c", entry=entry, contracts=["common.h"], loops=False,
             cbmc_flags=["--unwind", str(unwind), "--unwinding-assertions"], timeout=3000, cost=40, mem_gb=24, what=what)
    d.update(kw)
    return d
JOBS = [
 _j("SCPI_NumberToStr", "h_number_to_str", "number with unit / special name into every buffer length 0..24: canary behind the buffer, NUL, length", 130, tier="thorough", mem_gb=44,
    bound="buffer length 0..24 (symbolic), every unit of the real table and every special tag, formatted number = arbitrary text of 1..24 characters (snprintf model); unit-table and string loops unwound 130 with unwinding assertions"),
 _j("SCPI_DoubleToStr", "h_double_to_str", "float/double to string into every buffer length 0..24", 30,
    bound="buffer length 0..24 (symbolic), arbitrary text of 1..24 characters from the snprintf model"),
 _j("SCPI_dtostre.nonfinite", "h_dtostre_nonfinite", "built-in formatter, NaN/Inf path only (the finite path runs scpi_ecvt's floating-point loops, not reached by CBMC)", 30,
    bound="NaN and infinities only, buffer length 0..24"),
]
