JOBS = [
 dict(name="regs.SCPI_RegSet", props=["C11","C12","C01"], kind="PU", bound="register-group depth: do-while unwound 4 (structural constant 3), unwinding assertion on",
      replayer="regs", harness="regs_regset.c", entry="h_SCPI_RegSet", enforce="SCPI_RegSet", contracts=["regs.h"],
      cbmc_flags=["--unwind","4","--unwinding-assertions"], loops=False,
      what="status coherence (C11), condition->event latch, frame over all registers, SRQ on MSS rise (C12); all registers, name and value symbolic"),
]
