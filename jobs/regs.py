_U = ["--unwind", "4", "--unwinding-assertions"]
def _j(fn, what, **kw):
    d = dict(name="regs." + fn, props=["C11", "C12", "C01"], kind="PU",
             bound="register-group propagation loop fully unwound (structural depth 3, unwinding assertion on)",
             harness="h_regs.c", entry="h_" + fn, enforce=fn, contracts=["regs.h"], cbmc_flags=_U, loops=False,
             replayer="regs", what=what)
    d.update(kw)
    return d
JOBS = [
 _j("SCPI_RegSet", "status coherence (C11), condition->event latch, frame over all registers, SRQ on MSS rise (C12); all registers, name and value symbolic"),
 _j("SCPI_RegSetBits", "same clauses with val = old | bits, against SCPI_RegSet/SCPI_RegGet contracts", replace=["SCPI_RegSet", "SCPI_RegGet"], kind="P", bound="", cbmc_flags=[]),
 _j("SCPI_RegClearBits", "same clauses with val = old & ~bits, against SCPI_RegSet/SCPI_RegGet contracts", replace=["SCPI_RegSet", "SCPI_RegGet"], kind="P", bound="", cbmc_flags=[]),
 _j("SCPI_RegGet", "returns the register or 0", kind="P", bound="", props=["C11", "C01"]),
 dict(name="regs.SCPI_RegSet_safety", props=["C01"], kind="PU", bound="propagation loop unwound, unwinding assertion on",
      harness="h_regs.c", entry="h_SCPI_RegSet_safety", contracts=["regs.h"], cbmc_flags=["--unwind", "12", "--unwinding-assertions"], loops=False,
      what="memory safety/termination of SCPI_RegSet for arbitrary registers, NULL context, NULL interface/callback"),
]
