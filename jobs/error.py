_REGS = ["SCPI_RegSetBits", "SCPI_RegClearBits", "SCPI_RegGet"]
def _j(fn, what, **kw):
    d = dict(name="error." + fn, props=["C10", "C11", "C01"], kind="P", harness="h_error.c", entry="h_" + fn, enforce=fn,
             contracts=["error.h"], loops=False, what=what, replayer="error")
    d.update(kw)
    return d
JOBS = [
 _j("SCPI_ErrorInit", "queue initialised over the caller's storage", replace=["fifo_init"], props=["C10", "C01"]),
 _j("SCPI_ErrorCount", "count is the queue's", replace=["fifo_count"], props=["C10", "C01"]),
 _j("SCPI_ErrorAddInternal", "push, queue not full: stored text is a copy or absent (strndup may fail); every other slot unchanged",
    name="error.SCPI_ErrorAddInternal.room", tier="thorough", timeout=3000, mem_gb=40, cost=50,
    replace=["fifo_add", "fifo_remove_last", "strndup", "free"], props=["C10", "C01"],
    trust=["strndup, free: assumed contracts (contracts/libc.h)"]),
 _j("SCPI_ErrorAddInternal", "push, queue full: newest replaced by -350, both texts released, everything older unchanged",
    name="error.SCPI_ErrorAddInternal.full", tier="thorough", timeout=3000, mem_gb=40, cost=50,
    replace=["fifo_add", "fifo_remove_last", "strndup", "free"], props=["C10", "C01"],
    trust=["strndup, free: assumed contracts (contracts/libc.h)"]),
 _j("SCPI_ErrorPushEx", "C12 class bit for every int16 code, C11 coherence incl. QMA, C10 FIFO/overflow view, cmd_error, error callback counts",
    replace=["SCPI_ErrorAddInternal", "strnlen"] + _REGS, props=["C10", "C11", "C12", "C05", "C01"], kind="PU",
    bound="class table loop fully unwound (9 rows, unwinding assertion on)",
    assumes=["SCPI_ErrorAddInternal is used through its contract; that contract is discharged only in the thorough tier (jobs error.SCPI_ErrorAddInternal.*, ~10 min, > 12 GB)"], cbmc_flags=["--unwind", "40", "--unwinding-assertions"],
    trust=["strnlen: assumed contract (contracts/libc.h)"]),
 _j("SCPI_ErrorPush", "same clauses without text", replace=["SCPI_ErrorPushEx"], props=["C10", "C11", "C12", "C05", "C01"]),
 _j("SCPI_ErrorPop", "head out / 0 on empty, view shifts, QMA follows the queue, callback announces the drain",
    replace=["fifo_remove", "fifo_count"] + _REGS),
 _j("SCPI_ErrorClear", "queue emptied, every text released exactly once (loop contract), QMA cleared",
    replace=["fifo_remove", "fifo_clear", "fifo_count", "free"] + _REGS, loops=True, need_classes=["loop_invariant"],
    trust=["free: assumed observer contract; ownership itself is decided by the bounded malloc/free job"]),
]
