def _j(fn, what, **kw):
    d = dict(name="fifo." + fn, props=["C10", "C01"], kind="P", harness="h_fifo.c", entry="h_" + fn, enforce=fn,
             contracts=["fifo.h"], loops=False, what=what, replayer="fifo")
    d.update(kw)
    return d
JOBS = [
 _j("fifo_init", "initial state"),
 _j("fifo_clear", "empties, keeps storage"),
 _j("fifo_is_empty", "count == 0"),
 _j("fifo_is_full", "count == size"),
 _j("fifo_add", "QINV kept; view' = view ++ [v] unless full/NULL; every other slot unchanged (witness); symbolic capacity 1..32767"),
 _j("fifo_remove", "QINV kept; head out, rest of the view shifts; empty -> FALSE, nothing changes"),
 _j("fifo_remove_last", "QINV kept; newest out, rest untouched"),
 _j("fifo_count", "count reported"),
]
