#!/usr/bin/env python3
"""Writes /verif/MANIFEST.json from the table below (kept valid at all times)."""
import json, os, sys
VERIF = os.path.dirname(os.path.dirname(os.path.abspath(__file__)))
sys.path.insert(0, os.path.join(VERIF, "tools"))

TRUST = ("CBMC 6.11 (front end, DFCC instrumentation, back ends); assumed libc contracts and C-locale ctype model; "
         "x86-64 LP64 bit-vector arithmetic; interface callbacks and command handlers limited to their contracts; "
         "tools/annotate.py inserting only loop-contract clauses (strip-and-compare each run)")

# id -> (category, level text, design ref, technique, level note)
CLAIMS = {}
NA = {}

def claim(pid, category, text, ref, technique, note=TRUST):
    CLAIMS[pid] = (category, text, ref, technique, note)

def na(pid, reason):
    NA[pid] = reason

exec(open(os.path.join(VERIF, "tools", "claims.py")).read())

def main():
    checks = []
    for pid in sorted(CLAIMS):
        cat, text, ref, tech, note = CLAIMS[pid]
        checks.append({
            "property_id": pid,
            "quick_cmd": "./check %s --tier quick" % pid,
            "thorough_cmd": "./check %s --tier thorough" % pid,
            "evidence_file": "/verif/evidence/%s.json" % pid,
            "replay_cmd_template": "./check %s --replay {path}" % pid,
            "engine": "cbmc-dfcc",
            "level_claimed": {"category": cat, "text": text, "design_ref": ref},
            "level_note": note,
            "technique": tech,
        })
    man = {
        "version": 1,
        "setup_cmd": "python3 tools/setup.py",
        "hooks": {
            "guard": "SCPI_PARSER_VERIF",
            "enable": "no hook is needed: contracts are force-included forward declarations (goto-cc -include) and loop contracts are injected into a scratch copy; the guard name is reserved and unused",
            "baseline_off_cmd": "make -C /repo/libscpi clean >/dev/null 2>&1; make -k -j8 -C /repo test",
            "source_commits": [],
            "add_only": True,
        },
        "engines": [{
            "name": "cbmc-dfcc", "path": "/verif/tools/run.py",
            "serves_properties": sorted(CLAIMS),
            "kind_free_text": "contract-based deductive verification: CBMC 6.11 code contracts (requires/ensures/assigns, loop invariants/decreases) on the real C functions, enforced per function with goto-instrument --dfcc, callees replaced by their contracts; bounded CBMC stand-ins labelled as such",
        }],
        "checks": checks,
        "notes": "One entry point: ./check <id> --tier quick|thorough; exit 0 held, 1 VIOLATION, 2 tool problem. Repairs of genuine defects are unguarded 'fix:' commits in /repo, listed in known_findings.txt as fixed: lines; known findings are the known: lines there (each with a confirmation job). './check ALL --tier quick' runs every quick job once and writes all evidence files. Jobs listed in jobs/off.list are written but not run on this machine (reasons there and in DESIGN.md 8.10). The runner schedules by expected memory (VERIF_MEM_GB, default 56) and retries once a job that was killed for lack of memory under load.",
        "not_applicable": [{"property_id": k, "reason": v} for k, v in sorted(NA.items())],
    }
    json.dump(man, open(os.path.join(VERIF, "MANIFEST.json"), "w"), indent=1)
    try:
        import jsonschema
        jsonschema.validate(man, json.load(open("/root/.vp/MANIFEST.schema.json")))
        print("MANIFEST.json valid: %d checks, %d not_applicable" % (len(checks), len(NA)))
    except ImportError:
        print("MANIFEST.json written (jsonschema not available)")

if __name__ == "__main__":
    main()
