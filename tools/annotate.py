#!/usr/bin/env python3
"""Loop-contract injector.

Copies a repository C file into a scratch directory and inserts CBMC loop-contract
clauses (__CPROVER_assigns / __CPROVER_loop_invariant / __CPROVER_decreases) between a
loop header and its body.  Clauses are kept in /verif/contracts/<file>.loops, keyed by
(function name, loop ordinal inside that function, in order of the loop keyword).

Guarantees checked on every run (abort with AnnotateError -> exit 2 otherwise):
  * every key in the .loops file is found (function exists, has that many loops);
  * only text of the form " /*@LC*/ <macro name> /*@*/ " is inserted, on the same line, so line
    numbers are those of the repository file; the macro is either the loop-contract clauses (LC_...) or, before the
    closing brace of an annotated loop body, a reachability probe (LCP_... = __CPROVER_assert(0, "reach:lc:<fn>:<n>");
    an assertion has no effect on the other obligations, it only tells whether that point is reachable);
  * removing exactly the inserted spans gives back the repository file byte for byte.

.loops format:
    @ <function> <ordinal>
    <clause text, may span several lines; '#' starts a comment line>
A pseudo-function name "macro:NAME" addresses loops inside the body of '#define NAME'.
"""
import re
import sys
import os

NEEDS = {}
PROBES = set()
BEGIN = " /*@LC*/ "
END = " /*@*/ "


class AnnotateError(Exception):
    pass


def parse_loops_file(path):
    """-> dict {(func, ordinal): clause_text}"""
    out = {}
    if not os.path.exists(path):
        return out
    key = None
    buf = []
    for line in open(path):
        s = line.rstrip("\n")
        if s.startswith("@"):
            if key is not None:
                out[key] = " ".join(" ".join(buf).split())
            parts = s[1:].split()
            if len(parts) == 4 and parts[2] == "needs":
                NEEDS[(os.path.basename(path), parts[0], int(parts[1]))] = parts[3]
                parts = parts[:2]
            if len(parts) != 2:
                raise AnnotateError("bad key line in %s: %r" % (path, s))
            key = (parts[0], int(parts[1]))
            if key in out:
                raise AnnotateError("duplicate key %r in %s" % (key, path))
            buf = []
        elif s.strip().startswith("#") or not s.strip():
            continue
        else:
            if key is None:
                raise AnnotateError("clause before first key in %s" % path)
            buf.append(s.strip())
    if key is not None:
        out[key] = " ".join(" ".join(buf).split())
    for k, v in out.items():
        if "/*" in v or "*/" in v or "\n" in v:
            raise AnnotateError("comment or newline in clause %r" % (k,))
        for tok in re.findall(r"__CPROVER_\w+", v):
            pass
        # only contract clauses may be inserted
        stripped = v
        if not re.match(r"^(\s*__CPROVER_(assigns|loop_invariant|decreases)\s*\()", stripped):
            raise AnnotateError("clause for %r does not start with a loop-contract keyword" % (k,))
    return out


def mask(src, keep_macros=False):
    """Return a copy of src where comments, string and char literals (and preprocessor
    lines unless keep_macros) are replaced by spaces, newlines kept."""
    out = list(src)
    i = 0
    n = len(src)
    bol = True
    while i < n:
        c = src[i]
        if c == "/" and i + 1 < n and src[i + 1] == "*":
            j = src.find("*/", i + 2)
            j = n if j < 0 else j + 2
            for k in range(i, j):
                if out[k] != "\n":
                    out[k] = " "
            i = j
            continue
        if c == "/" and i + 1 < n and src[i + 1] == "/":
            j = src.find("\n", i)
            j = n if j < 0 else j
            for k in range(i, j):
                out[k] = " "
            i = j
            continue
        if c == '"' or c == "'":
            q = c
            j = i + 1
            while j < n and src[j] != q:
                if src[j] == "\\":
                    j += 1
                j += 1
            j = min(n, j + 1)
            for k in range(i + 1, j - 1):
                if out[k] != "\n":
                    out[k] = " "
            i = j
            bol = False
            continue
        if c == "#" and bol and not keep_macros:
            # preprocessor line with continuations
            j = i
            while True:
                e = src.find("\n", j)
                if e < 0:
                    e = n
                    break
                if src[e - 1] == "\\":
                    j = e + 1
                    continue
                break
            for k in range(i, e):
                if out[k] != "\n":
                    out[k] = " "
            i = e
            continue
        if c == "\n":
            bol = True
        elif not c.isspace():
            bol = False
        i += 1
    return "".join(out)


def match_paren(m, i, open_c="(", close_c=")"):
    """m[i] == open_c; return index of the matching close."""
    depth = 0
    n = len(m)
    while i < n:
        if m[i] == open_c:
            depth += 1
        elif m[i] == close_c:
            depth -= 1
            if depth == 0:
                return i
        i += 1
    raise AnnotateError("unbalanced %s" % open_c)


KEYWORDS = {"if", "while", "for", "switch", "return", "sizeof", "do", "else"}


def find_functions(m):
    """Yield (name, body_start, body_end) for function definitions at brace depth 0.
    m is the masked text."""
    funcs = []
    depth = 0
    i = 0
    n = len(m)
    ident = re.compile(r"[A-Za-z_]\w*")
    while i < n:
        c = m[i]
        if c == "{":
            depth += 1
            i += 1
            continue
        if c == "}":
            depth -= 1
            i += 1
            continue
        if depth == 0 and (c.isalpha() or c == "_"):
            mo = ident.match(m, i)
            name = mo.group(0)
            j = mo.end()
            k = j
            while k < n and m[k].isspace():
                k += 1
            if k < n and m[k] == "(" and name not in KEYWORDS:
                close = match_paren(m, k)
                k2 = close + 1
                while k2 < n and m[k2].isspace():
                    k2 += 1
                # allow attribute-ish identifiers (e.g. LOCAL) between ) and {
                mo2 = ident.match(m, k2)
                while mo2 and mo2.group(0) not in KEYWORDS:
                    k2 = mo2.end()
                    while k2 < n and m[k2].isspace():
                        k2 += 1
                    mo2 = ident.match(m, k2)
                if k2 < n and m[k2] == "{":
                    end = match_paren(m, k2, "{", "}")
                    funcs.append((name, k2, end))
                    i = end + 1
                    continue
                i = close + 1
                continue
            i = j
            continue
        i += 1
    return funcs


def find_loops(m, start, end):
    """Return list of insertion offsets (into the text) for loops within m[start:end], in
    order of the loop keyword.  For while/for the offset is just after the header's ')';
    for do it is just after the 'do' keyword."""
    res = []
    skip_while_at = set()
    tok = re.compile(r"\b(while|for|do)\b")
    pos = start
    while True:
        mo = tok.search(m, pos, end)
        if not mo:
            break
        kw = mo.group(1)
        if kw == "do":
            res.append(mo.end())
            k = mo.end()
            while m[k].isspace():
                k += 1
            if m[k] != "{":
                raise AnnotateError("do without braces not supported")
            close = match_paren(m, k, "{", "}")
            k2 = close + 1
            while m[k2].isspace():
                k2 += 1
            if not m.startswith("while", k2):
                raise AnnotateError("do body not followed by while")
            skip_while_at.add(k2)
            pos = mo.end()
            continue
        if kw == "while" and mo.start() in skip_while_at:
            pos = mo.end()
            continue
        k = mo.end()
        while m[k].isspace():
            k += 1
        if m[k] != "(":
            raise AnnotateError("loop keyword without (")
        close = match_paren(m, k)
        res.append(close + 1)
        pos = mo.end()
    return res


def find_macros(src):
    """Yield (name, body_start, body_end) offsets for #define bodies (with continuations)."""
    out = []
    for mo in re.finditer(r"^[ \t]*#[ \t]*define[ \t]+(\w+)", src, re.M):
        j = mo.end()
        while True:
            e = src.find("\n", j)
            if e < 0:
                e = len(src)
                break
            if src[e - 1] == "\\":
                j = e + 1
                continue
            break
        out.append(("macro:" + mo.group(1), mo.end(), e))
    return out


def loop_map(src):
    """-> dict {(func, ordinal): insertion offset}"""
    m = mask(src)
    table = {}
    counts = {}
    for name, bs, be in find_functions(m):
        offs = find_loops(m, bs, be)
        counts[name] = len(offs)
        for idx, off in enumerate(offs, 1):
            table[(name, idx)] = off
    mm = mask(src, keep_macros=True)
    for name, bs, be in find_macros(src):
        try:
            offs = find_loops(mm, bs, be)
        except AnnotateError:
            offs = []
        counts[name] = len(offs)
        for idx, off in enumerate(offs, 1):
            table[(name, idx)] = off
    return table, counts


def lc_name(tag, key):
    return "LC_%s_%s_%d" % (tag, re.sub(r"\W", "_", key[0]), key[1])


def body_end(src, m, off):
    """offset of the closing brace of the loop body that follows the insertion point off (None if the body is not a block)"""
    k = off
    while k < len(m) and m[k].isspace():
        k += 1
    if k >= len(m) or m[k] != "{":
        return None
    return match_paren(m, k, "{", "}")


def annotate_text(src, clauses, tag="x"):
    table, counts = loop_map(src)
    m = mask(src)
    ins = []
    for key, text in clauses.items():
        text = lc_name(tag, key)
        if key not in table:
            raise AnnotateError("anchor not found: function %s loop %d (function has %s loops)"
                                % (key[0], key[1], counts.get(key[0], "no such function;")))
        ins.append((table[key], BEGIN + text + END))
        # reachability probe at the end of the loop body (vacuity guard for the post-havoc copy of the body)
        if not key[0].startswith("macro:"):
            be = body_end(src, m, table[key])
            if be is not None:
                ins.append((be, BEGIN + "LCP" + text[2:] + END))
                PROBES.add((tag, key))
    ins.sort()
    out = []
    last = 0
    for off, text in ins:
        out.append(src[last:off])
        out.append(text)
        last = off
    out.append(src[last:])
    res = "".join(out)
    # strip-and-compare
    stripped = re.sub(re.escape(BEGIN) + r".*?" + re.escape(END), "", res)
    if stripped != src:
        raise AnnotateError("strip-and-compare failed")
    return res, counts


def annotate_file(repo_file, loops_file, out_file):
    src = open(repo_file, encoding="latin-1").read()
    clauses = parse_loops_file(loops_file)
    tag = os.path.basename(repo_file)[:-2]
    res, counts = annotate_text(src, clauses, tag)
    with open(out_file, "w", encoding="latin-1") as f:
        f.write(res)
    # byte-level re-check against the file on disk
    back = re.sub(re.escape(BEGIN) + r".*?" + re.escape(END), "", open(out_file, encoding="latin-1").read())
    if back.encode("latin-1") != open(repo_file, "rb").read():
        raise AnnotateError("strip-and-compare (bytes) failed for %s" % repo_file)
    defs = []
    for key, text in clauses.items():
        need = NEEDS.get((os.path.basename(loops_file), key[0], key[1]))
        name = lc_name(tag, key)
        cond = "!defined(VERIF_NO_LC)" + (" && defined(%s)" % need if need else "")
        defs.append("#if %s\n#define %s %s\n#else\n#define %s\n#endif" % (cond, name, text, name))
        if (tag, key) in PROBES:
            pname = "LCP" + name[2:]
            defs.append('#if %s\n#define %s __CPROVER_assert(0, "reach:lc:%s:%d");\n#else\n#define %s\n#endif' % (cond, pname, key[0], key[1], pname))
    return {"file": os.path.basename(repo_file), "loops_annotated": len(clauses), "_defs": defs,
            "loops_total": sum(v for k, v in counts.items() if not k.startswith("macro:"))}


if __name__ == "__main__":
    if len(sys.argv) == 3 and sys.argv[1] == "--list":
        src = open(sys.argv[2], encoding="latin-1").read()
        table, counts = loop_map(src)
        for (f, i), off in sorted(table.items(), key=lambda kv: kv[1]):
            line = src.count("\n", 0, off) + 1
            print("%-40s %d  line %d" % (f, i, line))
        sys.exit(0)
    try:
        print(annotate_file(sys.argv[1], sys.argv[2], sys.argv[3]))
    except AnnotateError as e:
        print("annotate: " + str(e), file=sys.stderr)
        sys.exit(2)
