#!/bin/bash
# seedcheck.sh <id> <dir with patch.diff demo.c meta.json> : confirm a seeded change in a scratch worktree of /repo HEAD
# (applies, test suite green with it, demo FAILS with it and PASSES without), then file it under /verif/seeded/<id>/
id=$1; src=$2; wt=$(mktemp -d /tmp/seedchk_XXXX); rmdir $wt
git -C /repo worktree add -f --detach $wt HEAD >/dev/null 2>&1 || { echo "$id: worktree failed"; exit 2; }
trap 'git -C /repo worktree remove --force $wt >/dev/null 2>&1' EXIT
cd $wt
build=$(grep -m1 -oE 'cc [^`"]*-o demo' $src/demo.c | head -1); [ -z "$build" ] && build="cc -I libscpi/inc -I libscpi/src demo.c libscpi/src/*.c -lm -o demo"
cp $src/demo.c . 
eval "$build" >/dev/null 2>&1 && ./demo >/tmp/seed_$id.orig 2>&1; r_orig=$?
git apply $src/patch.diff || { echo "$id: patch does not apply to HEAD"; exit 2; }
t=$(make -k -j8 -C libscpi test 2>&1 | grep -E "asserts" | awk '{print $5}' | tr '\n' ' ')
eval "$build" >/dev/null 2>&1 && ./demo >/tmp/seed_$id.chg 2>&1; r_chg=$?
echo "$id: demo original rc=$r_orig changed rc=$r_chg ; failed asserts per test binary with change: [$t]"
if [ "$r_orig" = 0 ] && [ "$r_chg" != 0 ] && [ "$t" = "0 0 0 0 " ]; then
  mkdir -p /verif/seeded/$id && cp $src/patch.diff $src/demo.c /verif/seeded/$id/ && python3 - $id $src "$t" <<'PY'
import json,sys
id,src,t=sys.argv[1],sys.argv[2],sys.argv[3]
m=json.load(open(src+'/meta.json'))
m['confirmed_by_me']={'worktree_of':'/repo HEAD (with fix: commits)','tests_failed_asserts_with_change':t,'demo_original_rc':0,'demo_changed_nonzero':True,'cmd':'tools/seedcheck.sh'}
json.dump(m,open('/verif/seeded/%s/meta.json'%id,'w'),indent=1)
PY
  echo "$id: CONFIRMED -> /verif/seeded/$id"
else echo "$id: NOT confirmed"; fi
