#!/bin/bash
# seedrun.sh <seed-id> <property> <jobs-regex> : apply /verif/seeded/<id>/patch.diff to /repo, run the named jobs, undo
id=$1; prop=$2; jobs=$3
git -C /repo apply /verif/seeded/$id/patch.diff || { echo "$id: patch does not apply"; exit 2; }
./check $prop --no-evidence --jobs "$jobs" 2>&1 | grep -a -E "^\[|^VIOLATION|^KNOWN|^TOOL|^SUMMARY" | cut -c1-260
git -C /repo checkout -- .
git -C /repo status --short | head -3
