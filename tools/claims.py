# Table of claims; exec'd by mkmanifest.py.
_PU = "Loops whose bound is a structural constant of the code (table size, operand width, register-group depth) are fully unwound with unwinding assertions on - complete, no input excluded; all other loops carry loop contracts (invariant + decreases)."
claim("C01", "proof",
      "Memory safety, absence of undefined arithmetic and termination are the standard CBMC obligations (bounds, pointer, pointer-overflow, signed overflow, shift, div-by-zero, ctype-argument precondition, assigns frames, loop decreases) inside every contract job: each function on the input path is proved safe for ALL states satisfying its precondition and to establish its callees' preconditions, so by induction over the call graph the property holds for every byte stream, chunking and buffer/queue size. " + _PU + " Quick tier: the jobs around the input path; thorough: every job. SCPI_Input as a whole is proved against SCPI_Parse's contract (loop contract with decreases); SCPI_Parse's own loop-contract job exceeds the memory of this machine, its unit loop is covered by the bounded whole-library jobs.",
      "DESIGN.md C01", "CBMC function + loop contracts (DFCC), standard safety checks per function")
claim("C02", "proof",
      "Path composition (composeCompoundCommand: prefix = previous header up to its last colon, written only into consumed bytes), first-match search over a symbolic table (findCommandHeader, loop contract) and exactly-once invocation with entry/effective header/program data (processCommand against a handler CONTRACT) are discharged as contracts; the unit loop as a whole is decided by a bounded whole-library job (messages of 1..2 units from a menu) and the matcher by the C03 jobs.",
      "DESIGN.md C02", "CBMC contracts for compose/lookup/dispatch + bounded whole-library equivalence for the unit loop")
claim("C03", "model_checking",
      "Bounded: the real matchCommand (with matchPattern, compareStr*, strnpbrk under it) equals a reference matcher written from the statement, for shipped patterns and every header up to 8 bytes over the pattern's letters in both cases plus : ? * digits _ and a foreign letter, including the suffix numbers and defaults. Unbounded language equivalence of the hand-written matcher is out of reach of contracts (stated in DESIGN).",
      "DESIGN.md C03", "CBMC bounded equivalence against a reference matcher (unwinding assertions on)")
claim("C04", "proof",
      "Token class -> base/signedness selection of every converter is a contract (P). The unit table and the special mnemonics are finite: every row x every letter case x 0..2 blanks is proved against a golden table (P/U). The six text->number helpers are contracts too (conv.*, P): exactly one call of the libc conversion of their own type with the caller's base, value and used length passed on unchanged - so a float is never a rounded double; correct rounding itself is libc's assumed contract. That a literal is converted as a whole is bounded (literals <= 5 bytes).",
      "DESIGN.md C04", "CBMC contracts + full unwinding over the finite tables; assumed libc conversions")
claim("C05", "proof",
      "The parameter cursor (five cases), every typed reader's decision table, processCommand's -200/-108 accounting, the recognisers' result==bytes-consumed (items delivered whole) and unit-level rejection (a unit accepted with a valid header ends right behind its data list or is marked malformed) are postconditions discharged by CBMC for symbolic buffers up to 10^6 bytes; SCPI_Input's return value rule is part of its contract. Two input shapes are listed known findings with bounded confirmation jobs.",
      "DESIGN.md C05", "CBMC function contracts (DFCC) with error-queue projection PUSHED_ONE / NO_PUSH")
claim("C06", "proof",
      "Every SCPI_Result* function: ',' first iff the unit already has an item, payload, one more item (ghost write observer with a watched position). processCommand: unit separator rule; writeNewLine: terminator iff something responded. Whole messages: bounded whole-library job. The separator defects for handlers that do not behave as their header says are a listed known finding.",
      "DESIGN.md C06", "CBMC contracts over a ghost output observer + bounded whole-library job")
claim("C07", "proof",
      "Round trips are lemmas over the real code: format (result API, captured output) -> real program-data recogniser -> real converter == original value. Unsigned 32/64-bit in bases 16/8/2: full domain (P/U). Decimal, text (<= 4 chars, both quotes), blocks (<= 3 bytes): bounded. Float digits: not applicable (C16); the float/double result buffers are proved large enough for every text the formatter can produce (no truncation).",
      "DESIGN.md C07", "CBMC lemma harnesses over the real encode/decode functions, full unwinding")
claim("C08", "model_checking",
      "Bounded whole-library self-composition: the same stream fed in one call and split at every point gives the same handler invocations, parameters, output, errors and remainder (messages of 1..3 units from a menu; every split point in the thorough tier, the split at the message boundary for every menu pair in the quick tier). SCPI_Input's buffer management (append, overrun guard, NUL, remainder moved to the front, termination) and unit detection's progress/termination-kind contract are P. A newline inside a quoted string is a listed known finding.",
      "DESIGN.md C08", "CBMC bounded self-composition of the real input path")
claim("C09", "proof",
      "Per-unit isolation is a contract obligation: the handler contract REQUIRES cmd_error, input_count, output_count, arbitrary_remaining fresh and the cursor at the start of the unit's data, and CBMC asserts that at the call in processCommand for arbitrary entry values. Message-to-message and unit-to-unit isolation of the parameter cursor: bounded whole-library jobs (B after A == B on a fresh context; a unit with an optional parameter after a unit that left parameters unread).",
      "DESIGN.md C09", "handler-entry precondition asserted at the call site (DFCC) + bounded self-composition")
claim("C10", "proof",
      "Ring-buffer representation invariant and FIFO view for every fifo.c function with symbolic capacity up to 32767 (witness slot over the whole view); SCPI_ErrorPushEx/Pop/Clear/Count against those contracts: overflow marking, pop order, empty pop, count; every text released exactly once in Clear (loop contract). Ownership under CBMC's malloc/free model (failing malloc, double free, use after free, leak checks on) is decided for bounded histories of push/pop/clear on the real queue (hist.malloc.*, labelled bounded).",
      "DESIGN.md C10", "CBMC function contracts with representation invariant and abstract view")
claim("C11", "proof",
      "Status-byte coherence (ESB/OPS/QES/MSS equal their definitions; QMA iff queue non-empty) is an inductive invariant: every register-mutating API keeps it from an arbitrary coherent state with fully symbolic 16-bit registers, so it holds along every history. " + _PU,
      "DESIGN.md C11", "CBMC function contracts (DFCC), inductive representation invariant")
claim("C12", "proof",
      "Error classification for all 65536 codes at once, condition->event latching, event-register frame and the SRQ edge rule are postconditions of SCPI_ErrorPushEx / SCPI_RegSet discharged for symbolic code, registers and value.",
      "DESIGN.md C12", "CBMC function contracts (DFCC) with ghost callback observer")
claim("C13", "proof",
      "Shape layer: all 15 token recognisers, their 13 helpers and the three program-data/unit recognisers under contracts with loop contracts, for buffers up to 10^6 bytes over all byte values: cursor in bounds, rollback on rejection, type/extent/length agree with what was consumed, result == displacement, first/last/next-byte facts, termination. Character-class content of whole tokens is enforced in the thorough tier only. Language layer (bounded): each recogniser equals a reference recogniser written from IEEE 488.2 section 7 for every string up to 8 (thorough 12) bytes at two offsets, and unit detection equals a reference for every input up to 5 (thorough 7) bytes.",
      "DESIGN.md C13", "CBMC function + loop contracts on the real recognisers")
claim("C14", "proof",
      "UInt32/UInt64ToStrBaseSign and wrappers, full domain (value, base, sign flag, len 0..72 symbolic): length, truncation, NUL, nothing beyond the buffer, sign, digit range, no leading zero; value exactness for bases 2/8/16 by decoding. Loops are bounded by the operand width and fully unwound (complete). Base-10 value exactness: bounded (|v| < 10^6), stated as such. 64-bit jobs are in the thorough tier (24 min each); the quick tier has the 64-bit sign rule for |v| < 2^34 (bounded).",
      "DESIGN.md C14", "CBMC full-domain harnesses, loops unwound to the operand width with unwinding assertions")
claim("C15", "model_checking",
      "Frames: integer formatters (P/U, full domain, canaries) and SCPI_ParamCopyText (P, loop contract) never write beyond the caller's buffer. SCPI_NumberToStr under contract (frame = the caller's len bytes, result < len, NUL; strncpy/strncat/strlen are CBMC's models, buffer 0..12 quick / 0..28 thorough). Float/double-to-string and the built-in formatter's non-finite path: bounded (buffer 0..24, canary directly behind the buffer in the same object, snprintf modelled).",
      "DESIGN.md C15", "CBMC frame contracts / canary harnesses")
claim("C17", "proof",
      "Block header ('#', digit count, decimal byte count for every length < 10^9), remaining-length accounting and refusal (-310) are contracts (P). Element byte order and item accounting of binary arrays: bounded (0..3 elements, every element size, both formats) on a little-endian and a big-endian host model; byte-swap helpers: full-domain identities.",
      "DESIGN.md C17", "CBMC contracts + bounded harness under both endiannesses")
claim("C18", "model_checking",
      "Bounded stand-in: the real SCPI_ResultError with the limit lowered from 255 to 20 (redefined in the harness, repository untouched), every text <= 14 bytes over {a, \"}, three codes: quoting, limit, late cut, prefix property.",
      "DESIGN.md C18", "CBMC bounded harness on the real function")
claim("C19", "model_checking",
      "Bounded: the real list decoders over the real lexer equal a reference list parser written from the statement numeric lists: every expression body up to 5 (thorough 7) bytes over the statement's alphabet, every index; channel lists: body length and index fixed per job (0..3 bytes quick, 4..5 thorough), bytes and capacity 0..3 symbolic; the lexer pieces they use are under contract (P).",
      "DESIGN.md C19", "CBMC bounded equivalence against a reference list parser")
claim("C20", "proof",
      "Static-heap build (-DUSE_MEMORY_ALLOCATION_FREE=0): scpiheap_strndup stores the text intact or refuses and changes nothing; nothing outside the allocated bytes changes; reads of the source stay inside its n bytes; heap sizes up to 100000 symbolic. scpiheap_get_parts / scpiheap_free are contracts as well (for any ring content that contains a NUL: no access outside the ring, exactly the text's bytes become NUL and are accounted, nothing else changes, write-position rule). That count and write position stay inside the ring along real histories: histories of push/pop/clear with an 8-byte heap between canaries (all sequences up to length 3 plus longer drain/refill sequences) decide full reuse, integrity of queued texts and containment (hist.heap.*, labelled bounded).",
      "DESIGN.md C20", "CBMC function contracts with frame and witness-byte integrity clauses")
na("C16", "floating-point digit exactness of snprintf/modf-based formatting is outside what CBMC contracts decide (bit-precise product of 16+ IEEE-754 steps; libc is external); buffer safety of those functions is under C15, result-buffer sizing under C07")
LEVEL_OVERRIDE = {"C03": "model_checking", "C08": "model_checking", "C15": "model_checking", "C18": "model_checking", "C19": "model_checking"}
