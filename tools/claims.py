# Table of claims; exec'd by mkmanifest.py.  Properties not yet claimed are listed under NA
# with the reason; the list is kept current as checks are built.
claim("C11", "proof",
      "Status-byte coherence (ESB/OPS/QES/MSS equal their definitions; QMA iff queue non-empty) is proved as an inductive invariant: every register-mutating API keeps it from an arbitrary coherent state with fully symbolic 16-bit registers, so it holds along every history. The register-group loop is unwound to its structural depth with unwinding assertions on (complete, no input excluded).",
      "DESIGN.md C11", "CBMC function contracts (DFCC), inductive representation invariant")
claim("C12", "proof",
      "Error classification for all 65536 codes at once, condition->event latching, event-register frame and the SRQ edge rule are postconditions of SCPI_ErrorPushEx / SCPI_RegSet discharged by CBMC for symbolic code, registers and value; table loops are unwound to their constant size with unwinding assertions.",
      "DESIGN.md C12", "CBMC function contracts (DFCC) with ghost callback observer")
na("C16", "floating-point digit exactness of snprintf/modf-based formatting is outside what CBMC contracts decide (bit-precise product of 16+ IEEE-754 steps; libc is external); memory safety of those functions is under C15")
for _p in ["C01","C02","C03","C04","C05","C06","C07","C08","C09","C10","C13","C14","C15","C17","C18","C19","C20"]:
    if _p not in CLAIMS:
        na(_p, "check under construction in this build phase (see DESIGN.md section for the planned contracts); not claimed until its jobs run green on the unchanged tree")
