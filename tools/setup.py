#!/usr/bin/env python3
"""setup_cmd: offline sanity check of the tool chain and of the framework files."""
import shutil, subprocess, sys, os, py_compile, glob
VERIF = os.path.dirname(os.path.dirname(os.path.abspath(__file__)))
ok = True
for t in ["cbmc", "goto-cc", "goto-instrument", "cc"]:
    if not shutil.which(t):
        print("missing tool:", t); ok = False
for f in glob.glob(os.path.join(VERIF, "tools", "*.py")) + glob.glob(os.path.join(VERIF, "jobs", "*.py")):
    try:
        py_compile.compile(f, doraise=True)
    except Exception as e:
        print("syntax:", f, e); ok = False
v = subprocess.run(["cbmc", "--version"], stdout=subprocess.PIPE).stdout.decode().strip()
print("cbmc", v)
os.makedirs(os.path.join(VERIF, "evidence"), exist_ok=True)
os.makedirs(os.path.join(VERIF, "replays"), exist_ok=True)
sys.exit(0 if ok else 1)
