#!/usr/bin/env python3
"""debug helper: show.py <cbmc.json> [property-substring] [-t] : list non-SUCCESS obligations; -t prints a condensed trace of the first match"""
import json, sys, collections
path = sys.argv[1]; pat = sys.argv[2] if len(sys.argv) > 2 and not sys.argv[2].startswith('-') else ''
tr = '-t' in sys.argv
m = json.load(open(path))
for x in m:
    if 'result' in x:
        c = collections.OrderedDict()
        for p in x['result']:
            if p['status'] != 'SUCCESS' and not p['description'].startswith('reach') and pat in p['property']:
                k = (p['status'], p['property'].rsplit('.', 1)[0], p['description'][:110], p['sourceLocation'].get('file', '')[-18:], p['sourceLocation'].get('line'))
                c[k] = c.get(k, 0) + 1
        for k, v in list(c.items())[:40]:
            print(v, k)
            if 'contracts/' in k[3] or k[3].endswith('.h'):
                try:
                    import glob
                    fn=[f for f in glob.glob('/verif/contracts/*.h') if f.endswith(k[3].split('/')[-1])][0]
                    print('      >>', open(fn).read().split('\n')[int(k[4])-1][:200])
                except Exception as e: pass
        if tr:
            for p in x['result']:
                if p['status'] == 'FAILURE' and pat in p['property'] and not p['description'].startswith('reach'):
                    print('TRACE of', p['property'], p['description'])
                    last = {}
                    for st in p.get('trace', []):
                        if st.get('stepType') == 'assignment':
                            v = st.get('value', {})
                            d = v.get('data', v.get('name'))
                            lhs = st.get('lhs', '')
                            if lhs.startswith('__') or 'write_set' in lhs or lhs.startswith('tmp_if'): continue
                            loc = st.get('sourceLocation', {})
                            print('  %-60s %-24s %s:%s' % (lhs[:60], str(d)[:24], (loc.get('function') or '')[:28], loc.get('line')))
                        elif st.get('stepType') == 'function-call':
                            print('  CALL', st.get('function', {}).get('displayName'))
                    break
