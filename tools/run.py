#!/usr/bin/env python3
"""Runner: /verif/check <property-id> [--tier quick|thorough] [--jobs a,b] [--replay <file>] [--keep]

For every job of the property: annotate the repository sources into a scratch directory,
goto-cc the harness (which #includes the annotated real .c files), goto-instrument --dfcc
(enforce one contract, replace callees by their contracts, apply loop contracts), cbmc.
Outcome rules (DESIGN 1.3):
  exit 0  every obligation discharged (known findings printed as KNOWN-FINDING lines)
  exit 1  some obligation FAILED that is not a listed known finding -> VIOLATION line
  exit 2  tool problem: timeout, out of memory, parse error, anchor not found, vacuity guard
"""
import sys, os, json, re, time, shutil, subprocess, tempfile, argparse, hashlib, glob
from concurrent.futures import ThreadPoolExecutor, as_completed

VERIF = os.path.dirname(os.path.dirname(os.path.abspath(__file__)))
REPO = os.environ.get("VERIF_REPO", "/repo")
SRC = os.path.join(REPO, "libscpi", "src")
INC = os.path.join(REPO, "libscpi", "inc")
sys.path.insert(0, os.path.join(VERIF, "tools"))
sys.path.insert(0, VERIF)
import annotate  # noqa

SRC_FILES = ["error.c", "expression.c", "fifo.c", "ieee488.c", "lexer.c", "minimal.c",
             "parser.c", "units.c", "utils.c"]
MAX_REPORT = 4
# C01 (memory safety / UB / termination) is the conjunction of the standard checks inside EVERY job; its quick tier runs
# the jobs around the input path, the thorough tier all of them.
C01_CORE = ('lexer.scpiLex_', 'lexer.skipQuote', 'lexer.skipProgramMnemonic', 'parser.scpiParser_detect', 'dispatch.compose', 'dispatch.findCommandHeader',
            'regs.SCPI_RegSet_safety', 'heap.', 'match.idn', 'param.SCPI_ParamCopyText', 'param.SCPI_Parameter', 'error.SCPI_ErrorPushEx', 'fifo.fifo_add',
            'fifo.fifo_remove', 'fmt.contract.UInt32', 'buf.SCPI_DoubleToStr', 'msg.chunking')
import threading
HEAVY_SEM = threading.Semaphore(int(os.environ.get('VERIF_HEAVY', '2')))
SOLVERS = {
    "minisat": [],
    "cadical": ["--sat-solver", "cadical"],
    "kissat": ["--external-sat-solver", "kissat"],
    "z3": ["--z3"],
    "cvc5": ["--cvc5"],
}


def load_jobs():
    jobs = []
    for path in sorted(glob.glob(os.path.join(VERIF, "jobs", "*.py"))):
        ns = {}
        exec(compile(open(path).read(), path, "exec"), ns)
        for j in ns.get("JOBS", []):
            j = dict(j)
            j.setdefault("family", os.path.basename(path)[:-3])
            jobs.append(j)
    off = {}
    offp = os.path.join(VERIF, "jobs", "off.list")     # jobs kept but not run on this machine (with the reason)
    if os.path.exists(offp):
        for line in open(offp):
            if line.strip() and not line.startswith("#"):
                nm, _, why = line.partition("#")
                off[nm.strip()] = why.strip()
    names = set()
    for j in jobs:
        if j["name"] in off:
            j["tier"] = "off"
            j["off_reason"] = off[j["name"]]
        if j["name"] in names:
            raise SystemExit("duplicate job name " + j["name"])
        names.add(j["name"])
        j.setdefault("tier", "quick")
        j.setdefault("kind", "P")
        j.setdefault("replace", [])
        j.setdefault("defines", [])
        j.setdefault("cbmc_flags", [])
        j.setdefault("cc_flags", [])
        j.setdefault("timeout", 300)
        j.setdefault("mem_gb", 12)
        j.setdefault("solver", "cadical")
        j.setdefault("reach", ["reach"])  # prefixes of assert(0) guards that must FAIL
        j.setdefault("loops", True)
        j.setdefault("contracts", [])
        j.setdefault("expect_fail", None)
        if not j.get("enforce") and not j["replace"] and not j.get("replayer"):
            j["replayer"] = "harness"   # harness-style job: its own harness file can be run natively on the counterexample
    return jobs


def load_known():
    """known_findings.txt -> (dict id -> record, list of fixed lines)"""
    known, fixed = {}, []
    p = os.path.join(VERIF, "known_findings.txt")
    if os.path.exists(p):
        for line in open(p):
            line = line.strip()
            if line.startswith("known:"):
                d = dict(re.findall(r"(\w+)=(\S+)", line.split("--")[0]))
                d["text"] = line.split("--", 1)[1].strip() if "--" in line else ""
                known[d["id"]] = d
            elif line.startswith("fixed:"):
                fixed.append(line)
    return known, fixed


def sh(cmd, cwd=None, timeout=None, mem_gb=None):
    pre = ""
    if mem_gb:
        pre = "ulimit -v %d; " % (mem_gb * 1024 * 1024)
    t0 = time.time()
    try:
        p = subprocess.run(["bash", "-c", pre + "exec " + " ".join(map(shq, cmd))], cwd=cwd,
                           stdout=subprocess.PIPE, stderr=subprocess.PIPE, timeout=timeout)
        return p.returncode, p.stdout.decode("utf-8", "replace"), p.stderr.decode("utf-8", "replace"), time.time() - t0
    except subprocess.TimeoutExpired as e:
        return -99, (e.stdout or b"").decode("utf-8", "replace"), "TIMEOUT", time.time() - t0


def shq(s):
    import shlex
    return shlex.quote(str(s))


def prepare_scratch(scratch):
    """annotated copy of libscpi/src into scratch/src; returns annotation stats"""
    sdir = os.path.join(scratch, "src")
    os.makedirs(sdir, exist_ok=True)
    stats = []
    defs = ["/* generated: loop-contract clause text per (file, function, ordinal); force-included after the contracts */"]
    for f in sorted(os.listdir(SRC)):
        p = os.path.join(SRC, f)
        if f.endswith(".c"):
            loops = os.path.join(VERIF, "contracts", f[:-2] + ".loops")
            st = annotate.annotate_file(p, loops, os.path.join(sdir, f))
            defs += st.pop("_defs")
            stats.append(st)
        elif f.endswith(".h"):
            shutil.copy(p, os.path.join(sdir, f))
    open(os.path.join(sdir, "lc_defs.h"), "w").write("\n".join(defs) + "\n")
    return stats


def run_job(job, scratch_root, keep=False):
    """returns result dict"""
    t0 = time.time()
    res = {"job": job["name"], "kind": job["kind"], "status": "error", "obligations": 0,
           "discharged": 0, "failed": [], "solver_s": 0.0, "wall_s": 0.0, "backend": job["solver"],
           "bound": job.get("bound", ""), "enforce": job.get("enforce"), "replace": job["replace"],
           "note": ""}
    wd = os.path.join(scratch_root, job["name"])
    os.makedirs(wd, exist_ok=True)
    sdir = os.path.join(scratch_root, "src")
    harness = os.path.join(VERIF, "harness", job["harness"])
    entry = job["entry"]
    a = os.path.join(wd, "a.gb")
    b = os.path.join(wd, "b.gb")
    cc = ["goto-cc", "-D__NO_CTYPE", "-DSCPI_PARSER_VERIF_CBMC", "-I", sdir, "-I", INC,
          "-I", os.path.join(VERIF, "contracts"), "-I", os.path.join(VERIF, "harness")]
    for d in job["defines"]:
        cc.append("-D" + d)
    cc += job["cc_flags"]
    for c in job["contracts"]:
        cc += ["-include", os.path.join(VERIF, "contracts", c)]
    if not job["loops"]:
        cc.append("-DVERIF_NO_LC")   # loops of this job are unwound: compile the sources without loop-contract clauses
    cc += ["-include", os.path.join(sdir, "lc_defs.h")]
    cc += ["--function", entry, harness, "-o", a]
    rc, out, err, _ = sh(cc, cwd=wd, timeout=300)
    if rc != 0:
        res["note"] = "goto-cc failed: " + " | ".join([l for l in (err + out).splitlines() if "error" in l.lower()][:4])[:1500]
        res["wall_s"] = time.time() - t0
        return res
    gi = ["goto-instrument", "--dfcc", entry]
    if job.get("enforce"):
        gi += ["--enforce-contract", job["enforce"]]
    for r in job["replace"]:
        gi += ["--replace-call-with-contract", r]
    if job["loops"]:
        gi += ["--apply-loop-contracts"]
    gi += job.get("gi_flags", [])
    gi += [a, b]
    use_dfcc = job.get("enforce") or job["replace"] or job["loops"]
    if use_dfcc:
        rc, out, err, _ = sh(gi, cwd=wd, timeout=600, mem_gb=job["mem_gb"])
        if rc != 0:
            res["note"] = "goto-instrument failed: " + (err + out)[-3000:]
            res["wall_s"] = time.time() - t0
            return res
    else:
        b = a
    cb = ["cbmc", b, "--json-ui", "--trace", "--verbosity", "8", "--object-bits", str(job.get("object_bits", 12))]   # verbosity 8: runtime statistics (solver time for the evidence)
    cb += SOLVERS[job["solver"]]
    cb += job["cbmc_flags"]
    res["checker_cmd"] = " ".join(gi if use_dfcc else []) + " ; " + " ".join(cb)
    rc, out, err, dt = sh(cb, cwd=wd, timeout=job["timeout"], mem_gb=job["mem_gb"])
    if keep:
        open(os.path.join(wd, "cbmc.json"), "w").write(out)
    if rc in (-9, 137):
        res["status"] = "oom"
        res["note"] = "cbmc killed (out of memory?)"
        res["wall_s"] = time.time() - t0
        return res
    if rc == -99:
        res["status"] = "timeout"
        res["note"] = "cbmc timeout after %ds" % job["timeout"]
        res["wall_s"] = time.time() - t0
        return res
    try:
        msgs = json.loads(out)
    except Exception:
        res["note"] = "cbmc output not JSON (rc=%d): %s" % (rc, (out[-1500:] + err[-500:]))
        if "std::bad_alloc" in out + err or "Out of memory" in out + err or rc in (134, 137, 139):
            res["status"] = "oom"
        res["wall_s"] = time.time() - t0
        return res
    props = None
    texts = []
    for m in msgs:
        if isinstance(m, dict):
            if "result" in m:
                props = m["result"]
            if "messageText" in m:
                texts.append(m["messageText"])
    alltext = "\n".join(texts)
    for mo in re.finditer(r"Runtime decision procedure: ([0-9.eE+-]+)s", alltext):
        res["solver_s"] += float(mo.group(1))
    for mo in re.finditer(r"Runtime Solver: ([0-9.]+)s", alltext):
        pass
    if re.search(r"ignoring (forall|exists)", alltext):
        res["note"] += " quantifier ignored by back end;"
        res["status"] = "error"
        res["wall_s"] = time.time() - t0
        return res
    if props is None:
        res["note"] = "no result block: " + alltext[-1500:]
        res["wall_s"] = time.time() - t0
        return res
    reach_seen = {}
    lc_seen = {}
    failed = []
    n = 0
    classes = {}
    for p in props:
        desc = p.get("description", "")
        name = p.get("property", "")
        status = p.get("status", "")
        if desc.startswith("reach:lc:"):       # loop-body probes of the injector: one per copy of the body (entry state / post-havoc state)
            lc_seen.setdefault(desc, []).append(status)
            continue
        is_reach = any(desc.startswith(r) for r in job["reach"]) if job["reach"] else False
        if is_reach:
            if p.get("sourceLocation", {}).get("function") == entry:
                reach_seen[desc] = status
            continue
        n += 1
        cls = name.rsplit(".", 1)[0].split(".", 1)[-1] if "." in name else name
        classes[cls] = classes.get(cls, 0) + 1
        if status == "SUCCESS":
            res["discharged"] += 1
        else:
            loc = p.get("sourceLocation", {})
            failed.append({"property": name, "description": desc, "status": status,
                           "file": os.path.basename(loc.get("file", "")), "line": loc.get("line", ""),
                           "function": loc.get("function", ""),
                           "trace": p.get("trace", [])})
    lib_fail = [f for f in failed if f["property"].startswith("__CPROVER_contracts_")]
    failed = [f for f in failed if not f["property"].startswith("__CPROVER_contracts_")]
    res["obligations"] = n
    res["sample_obligations"] = [{"id": p.get("property"), "what": p.get("description", "")[:160], "status": p.get("status"),
                                  "at": "%s:%s" % (os.path.basename(p.get("sourceLocation", {}).get("file", "")), p.get("sourceLocation", {}).get("line", ""))}
                                 for p in props if ("postcondition" in p.get("property", "") or "assertion" in p.get("property", "") or "loop_invariant" in p.get("property", ""))
                                 and not p.get("description", "").startswith("reach")][:4]
    res["classes"] = classes
    res["failed"] = failed
    res["reach"] = reach_seen
    # vacuity guards
    vac = []
    if job["reach"]:
        if not reach_seen:
            vac.append("no reachability guard found")
        for d, st in reach_seen.items():
            if st != "FAILURE":
                vac.append("guard '%s' is %s (precondition contradictory or call does not return)" % (d, st))
    # loop contracts: the end of every annotated loop body must be reachable in every copy CBMC makes of it (in particular the
    # post-havoc copy on which the invariant step and the decreases clause are checked); a loop none of whose copies is
    # reachable is dead in this job and must be declared so (dead_loops)
    res["lc_probes"] = {k: v for k, v in lc_seen.items()}
    for d, sts in sorted(lc_seen.items()):
        key = d[len("reach:lc:"):]
        if all(st == "FAILURE" for st in sts):
            continue
        if all(st == "SUCCESS" for st in sts):
            if key not in job.get("dead_loops", []) and "*" not in job.get("dead_loops", []):
                vac.append("loop %s is never entered in this job (not declared in dead_loops)" % key)
        else:
            if key not in job.get("step_unreachable_ok", []):
                vac.append("loop %s: a copy of the body does not reach its end (%s) - invariant step proved vacuously?" % (key, ",".join(sts)))
    if job.get("enforce") and not any(k.startswith("postcondition") or "postcondition" in k for k in classes):
        if not job.get("no_post_ok"):
            vac.append("no postcondition obligation generated")
    for need in job.get("need_classes", []):
        if not any(need in k for k in classes):
            vac.append("no %s obligation generated" % need)
    if n == 0:
        vac.append("zero obligations")
    for f in lib_fail:
        vac.append("DFCC library obligation not discharged: %s %s" % (f["property"], f["description"]))
    res["vacuity"] = vac
    if failed and lib_fail and all(v.startswith("DFCC library") for v in vac):
        vac = []  # a user-level failure explains the library failures behind it
    if failed and vac and all(v.startswith("guard '") for v in vac) and any("undefined function should be unreachable" in f["description"] for f in failed):
        vac = []  # the verified code calls a function that has neither a body nor a contract in this job: that obligation fails, and the call not returning explains the unreached guards
    if vac:
        res["status"] = "vacuous"
        res["note"] += " ".join(vac)
    elif failed:
        res["status"] = "failed"
    else:
        res["status"] = "ok"
    res["wall_s"] = time.time() - t0
    if not keep:
        shutil.rmtree(wd, ignore_errors=True)
    return res


# ---- memory budget: the sum of the expected peak memory (est_gb, per job family) of the running jobs stays below the
# machine's memory; a job killed for lack of memory while others were running is retried once, nearly alone.
MEM_TOTAL = float(os.environ.get("VERIF_MEM_GB", "56"))
_mem_cv = threading.Condition()
_mem_used = [0.0]


def _est(job):
    if "est_gb" in job:
        return float(job["est_gb"])
    m = job.get("mem_gb", 12)
    return 22.0 if m >= 30 else (6.0 if m >= 19 else 1.5)


def _acquire(gb):
    gb = min(gb, MEM_TOTAL)
    with _mem_cv:
        while _mem_used[0] + gb > MEM_TOTAL and _mem_used[0] > 0:
            _mem_cv.wait(timeout=5)
        _mem_used[0] += gb
    return gb


def _release(gb):
    with _mem_cv:
        _mem_used[0] -= gb
        _mem_cv.notify_all()


def run_job_budgeted(job, scratch, keep):
    gb = _acquire(_est(job))
    try:
        res = run_job(job, scratch, keep)
    finally:
        _release(gb)
    if res.get("status") in ("oom", "error") and ("out of memory" in (res.get("note") or "") or "no result block" in (res.get("note") or "")):
        gb = _acquire(MEM_TOTAL - 4)       # retry with (almost) the whole machine
        try:
            res2 = run_job(job, scratch, keep)
            res2["note"] = (res2.get("note") or "") + " (second attempt; the first was killed for lack of memory under load)"
            res = res2
        finally:
            _release(gb)
    return res


def trace_inputs(trace, entry=None):
    """Condense a CBMC JSON trace: first value of every scalar leaf of the harness locals, of the
    objects created by is_fresh (initial contents) and of the ghost variables.
    -> {"kv": {key: [unsigned value, width]}, "text": {key: printable}}"""
    kv = {}
    text = {}
    nd = 0
    nd_last = None
    for st in trace:
        # nondet_*() wrapper calls (contracts/common.h): the value of a call is the LAST assignment to its local nd_rec
        # (the declaration itself also shows up as an assignment of an arbitrary value)
        if st.get("stepType") == "function-return" and (st.get("function", {}).get("displayName", "") or "").startswith("nondet_") and not (st.get("function", {}).get("displayName", "") or "").startswith("nondet_raw_"):
            if nd_last is not None:
                kv["nd.%d" % nd] = nd_last
                nd += 1
            nd_last = None
            continue
        if st.get("stepType") == "assignment" and st.get("lhs", "") == "nd_rec" and st.get("sourceLocation", {}).get("function", "").startswith("nondet_") and "binary" in st.get("value", {}):
            v = st["value"]
            try:
                nd_last = [int(v["binary"], 2), int(v.get("width", len(v["binary"])))]
            except ValueError:
                pass
            continue
        if st.get("stepType") != "assignment":
            continue
        lhs = st.get("lhs", "")
        v = st.get("value", {})
        if "binary" not in v:
            continue
        loc = st.get("sourceLocation", {})
        fn = loc.get("function", "")
        keep = False
        if lhs.startswith("dynamic_object") and fn in ("__CPROVER_contracts_is_fresh", "malloc", "__CPROVER_contracts_malloc", ""):
            keep = True
        elif fn == entry and "$" not in lhs and not lhs.startswith("keep_"):
            keep = True
        elif lhs.startswith("gh_") and fn in (entry, "", "__CPROVER_initialize"):
            keep = True
        elif lhs.startswith("in_"):
            keep = True
        if not keep or lhs in kv:
            continue
        try:
            kv[lhs] = [int(v["binary"], 2), int(v.get("width", len(v["binary"])))]
            text[lhs] = v.get("data")
        except ValueError:
            pass
        if len(kv) > 6000:
            break
    return {"kv": kv, "text": {k: text[k] for k in list(text)[:400]}}


def write_replay(prop_id, job, fail, res):
    d = os.path.join(VERIF, "replays")
    os.makedirs(d, exist_ok=True)
    safe = re.sub(r"[^A-Za-z0-9_.-]", "_", "%s__%s__%s" % (prop_id, job["name"], fail["property"]))
    path = os.path.join(d, safe + ".json")
    rec = {"property": prop_id, "job": job["name"], "obligation": fail["property"],
           "description": fail["description"], "source": "%s:%s (%s)" % (fail["file"], fail["line"], fail["function"]),
           "harness": job["harness"], "entry": job["entry"], "enforce": job.get("enforce"),
           "defines": job["defines"], "checker_cmd": res.get("checker_cmd", ""),
           "inputs": trace_inputs(fail.get("trace", []), job["entry"]), "replayer": job.get("replayer"),
           "verifier_output": "%s: %s [%s] at %s:%s" % (fail["property"], fail["description"], fail["status"], fail["file"], fail["line"])}
    json.dump(rec, open(path, "w"), indent=1)
    return path


def native_replay(job, replay_path):
    """Run the family's native replayer, if any.  Returns True (reproduced), False (not
    reproduced) or None (no replayer)."""
    rp = job.get("replayer")
    if not rp:
        return None
    try:
        import replay as replay_mod
        return replay_mod.run(rp, replay_path, REPO, VERIF)
    except Exception as e:  # replay problems never mask the violation
        sys.stderr.write("replay error: %r\n" % (e,))
        return None


def main():
    ap = argparse.ArgumentParser()
    ap.add_argument("prop")
    ap.add_argument("--tier", default=os.environ.get("VERIF_TIER", "quick"))
    ap.add_argument("--jobs", default="")
    ap.add_argument("--keep", action="store_true")
    ap.add_argument("--replay", default="")
    ap.add_argument("-j", type=int, default=int(os.environ.get("VERIF_PAR", "16")))
    ap.add_argument("--no-evidence", action="store_true")
    args = ap.parse_args()
    if args.replay:
        import replay as replay_mod
        sys.exit(replay_mod.cli(args.replay, REPO, VERIF))
    t0 = time.time()
    seed = int(os.environ.get("VERIF_SEED", "0") or 0)
    jobs = load_jobs()
    known, fixed = load_known()
    sel = [j for j in jobs if args.prop in j["props"] or args.prop == "ALL"]
    if not os.environ.get("VERIF_INCLUDE_OFF"):
        sel = [j for j in sel if j["tier"] != "off"]   # "off": written and kept, but not decidable on this machine (see DESIGN 8.2)
    if args.tier == "quick":
        sel = [j for j in sel if j["tier"] in ("quick", "off") and args.prop not in j.get("thorough_for", [])]
        if args.prop == "C01":
            core = [j for j in sel if j.get("c01_core") or any(j["name"].startswith(pfx) for pfx in C01_CORE)]
            sel = core
    if os.environ.get("VERIF_ONLY_THOROUGH"):   # maintenance: the thorough-tier jobs alone
        sel = [j for j in sel if j["tier"] == "thorough"]
    if args.jobs:
        pats = args.jobs.split(",")
        sel = [j for j in jobs if any(re.fullmatch(p, j["name"]) for p in pats)]
    if not sel:
        print("no jobs for", args.prop)
        sys.exit(2)
    scratch = tempfile.mkdtemp(prefix="verif_%s_" % args.prop)
    results = []
    rc_final = 0
    try:
        try:
            ann = prepare_scratch(scratch)
        except annotate.AnnotateError as e:
            print("TOOL-ERROR annotate: %s" % e)
            sys.exit(2)
        # longest first
        sel.sort(key=lambda j: -j.get("cost", 1))
        # two pools: jobs that may need a lot of memory run at most VERIF_HEAVY (2) at a time, the rest share the other workers
        nheavy = int(os.environ.get("VERIF_HEAVY", "2"))
        with ThreadPoolExecutor(max_workers=max(1, args.j - nheavy)) as ex, ThreadPoolExecutor(max_workers=nheavy) as exh:
            futs = {}
            for j in sel:
                pool = exh if j.get("mem_gb", 12) >= 20 else ex
                futs[pool.submit(run_job_budgeted, j, scratch, args.keep)] = j
            for f in as_completed(futs):
                j = futs[f]
                try:
                    r = f.result()
                except Exception as e:
                    r = {"job": j["name"], "status": "error", "note": repr(e), "obligations": 0,
                         "discharged": 0, "failed": [], "solver_s": 0, "wall_s": 0, "kind": j["kind"]}
                r["_job"] = j
                results.append(r)
                sys.stderr.write("[%s] %-44s %-8s %4d/%-4d %6.1fs %s\n" % (
                    args.prop, r["job"], r["status"], r["discharged"], r["obligations"], r["wall_s"],
                    (r.get("note") or "")[:300].replace("\n", " ")))
    finally:
        if not args.keep:
            shutil.rmtree(scratch, ignore_errors=True)
        else:
            sys.stderr.write("scratch kept: %s\n" % scratch)
    results.sort(key=lambda r: r["job"])
    violations = []
    known_hits = []
    tool_errors = []
    for r in results:
        j = r["_job"]
        kf = j.get("known_finding")
        if r["status"] in ("error", "timeout", "oom", "vacuous"):
            if kf and r["status"] == "vacuous" and False:
                pass
            tool_errors.append(r)
            continue
        if kf:
            # confirmation job of a listed known finding: it is *expected* to fail on the
            # obligation named in known_findings.txt; it is not part of the proof.
            rec = known.get(kf)
            if rec is None:
                tool_errors.append(dict(r, note="confirmation job for unlisted finding " + kf))
                continue
            hit = [f for f in r["failed"] if re.search(rec.get("obligation", "."), f["property"] + " " + f["description"])]
            other = [f for f in r["failed"] if f not in hit]
            if hit:
                known_hits.append((rec, hit[0], r))
            for f in other:
                violations.append((j, f, r))
            continue
        for f in r["failed"]:
            violations.append((j, f, r))
    out_lines = []
    for rec, f, r in known_hits:
        if rec.get("property") == args.prop or args.prop == "ALL" or args.prop in r["_job"]["props"]:
            out_lines.append("KNOWN-FINDING: property=%s %s [%s: %s]" % (args.prop, rec["text"], f["property"], f["description"]))
    seen = set()
    perjob = {}
    for j, f, r in violations:
        key = (j["name"], f["property"])
        if key in seen:
            continue
        seen.add(key)
        perjob[j["name"]] = perjob.get(j["name"], 0) + 1
        rc_final = 1
        if perjob[j["name"]] > MAX_REPORT:
            continue
        path = write_replay(args.prop, j, f, r)
        rep = native_replay(j, path)
        suffix = "" if rep else " no-failing-input-found"
        out_lines.append("VIOLATION property=%s replay=%s job=%s obligation=%s (%s)%s" % (
            args.prop, path, j["name"], f["property"], f["description"][:120], suffix))
        rc_final = 1
    for jn, cnt in perjob.items():
        if cnt > MAX_REPORT:
            out_lines.append("NOTE job=%s has %d more failed obligations (not listed)" % (jn, cnt - MAX_REPORT))
    for r in tool_errors:
        out_lines.append("TOOL-ERROR job=%s status=%s %s" % (r["job"], r["status"], (r.get("note") or "")[:500].replace("\n", " ")))
        if rc_final == 0:
            rc_final = 2
    for l in out_lines:
        print(l)
    wall = time.time() - t0
    if not args.no_evidence and not args.jobs and args.prop != "ALL":
        write_evidence(args.prop, args.tier, seed, results, ann, violations, known_hits, tool_errors, wall)
    if not args.no_evidence and args.prop == "ALL":
        # one shared run, evidence per property from the jobs that serve it
        props = sorted({p for r in results for p in r["_job"]["props"]})
        for pr in props:
            rs = [r for r in results if pr in r["_job"]["props"]]
            if pr == "C01" and args.tier == "quick":
                rs = [r for r in rs if r["_job"].get("c01_core") or any(r["job"].startswith(pfx) for pfx in C01_CORE)]
            names = {r["job"] for r in rs}
            write_evidence(pr, args.tier, seed, rs, ann, [v for v in violations if v[0]["name"] in names],
                           [k for k in known_hits if k[2]["job"] in names], [t for t in tool_errors if t["job"] in names],
                           sum(r.get("wall_s", 0) for r in rs))
    n_obl = sum(r["obligations"] for r in results)
    n_dis = sum(r["discharged"] for r in results)
    print("SUMMARY property=%s tier=%s jobs=%d obligations=%d discharged=%d violations=%d known=%d tool_errors=%d wall=%.1fs" % (
        args.prop, args.tier, len(results), n_obl, n_dis, len(seen), len(known_hits), len(tool_errors), wall))
    sys.exit(rc_final)


def write_evidence(prop, tier, seed, results, ann, violations, known_hits, tool_errors, wall):
    import evidence
    evidence.write(VERIF, prop, tier, seed, results, ann, violations, known_hits, tool_errors, wall)


if __name__ == "__main__":
    main()
