"""Evidence writer: /verif/evidence/<id>.json from the job results of this run."""
import os, json, re, glob

GLOBAL_TRUST = [
    "CBMC 6.11.0 front end, goto-instrument DFCC contract instrumentation and the SAT/SMT back end named per job",
    "x86-64 LP64 data model; machine integers are bit-vectors (no mathematical-integer idealisation)",
    "C-locale <ctype.h> function forms (-D__NO_CTYPE) modelled by CBMC's library",
    "tools/annotate.py inserts only loop-contract clauses (strip-and-compare against the repository file on every run)",
]


def scan_assumptions(verif, jobs):
    """mechanical scan: __CPROVER_assume in the harnesses used, ASSUMED contracts in the headers used"""
    out = []
    seen = set()
    for j in jobs:
        h = os.path.join(verif, "harness", j["harness"])
        files = [h] + [os.path.join(verif, "contracts", c) for c in j.get("contracts", [])]
        # contract headers include each other: follow #include "x.h" inside /verif/contracts
        k = 0
        while k < len(files):
            f0 = files[k]; k += 1
            if os.path.exists(f0) and f0.endswith(".h"):
                for inc in re.findall(r'#include\s+"([\w.]+\.h)"', open(f0, encoding="latin-1").read()):
                    cand = os.path.join(verif, "contracts", inc)
                    if os.path.exists(cand) and cand not in files:
                        files.append(cand)
        for f in files:
            if f in seen or not os.path.exists(f):
                continue
            seen.add(f)
            txt = open(f, encoding="latin-1").read()
            n = len(re.findall(r"__CPROVER_assume\s*\(", txt))
            if n:
                out.append("%s: %d __CPROVER_assume (input shaping in the harness)" % (os.path.relpath(f, verif), n))
            for mo in re.finditer(r"/\*\s*ASSUMED:\s*(.*?)\*/", txt, re.S):
                out.append("%s: assumed contract - %s" % (os.path.relpath(f, verif), " ".join(mo.group(1).split())))
    return out


def write(verif, prop, tier, seed, results, ann, violations, known_hits, tool_errors, wall):
    os.makedirs(os.path.join(verif, "evidence"), exist_ok=True)
    proof = [r for r in results if r["kind"] in ("P", "PU") and not r["_job"].get("known_finding")]
    bounded = [r for r in results if r["kind"] == "B" and not r["_job"].get("known_finding")]
    conf = [r for r in results if r["_job"].get("known_finding")]
    obligations = sum(r["obligations"] for r in proof)
    discharged = sum(r["discharged"] for r in proof)
    b_obl = sum(r["obligations"] for r in bounded)
    b_dis = sum(r["discharged"] for r in bounded)
    all_jobs = [r["_job"] for r in results]
    functions = sorted({r["_job"]["enforce"] for r in results if r["_job"].get("enforce")})
    replaced = sorted({x for r in results for x in r["_job"].get("replace", [])})
    trusted = list(GLOBAL_TRUST)
    for j in all_jobs:
        for t in j.get("trust", []):
            if t not in trusted:
                trusted.append(t)
    assumptions = scan_assumptions(verif, all_jobs)
    for j in all_jobs:
        for t in j.get("assumes", []):
            if t not in assumptions:
                assumptions.append(t)
    per_job = []
    samples = []
    for r in results:
        j = r["_job"]
        per_job.append({
            "job": r["job"], "kind": r["kind"], "bound": r.get("bound", ""), "status": r["status"],
            "function_under_contract": j.get("enforce"), "callees_replaced_by_contract": j.get("replace", []),
            "obligations": r["obligations"], "discharged": r["discharged"], "back_end": r.get("backend"),
            "solver_s": round(r.get("solver_s", 0.0), 2), "wall_s": round(r.get("wall_s", 0.0), 1),
            "obligation_classes": r.get("classes", {}), "reachability_guards": r.get("reach", {}), "loop_body_probes": r.get("lc_probes", {}),
            "known_finding_confirmation": j.get("known_finding"),
            "what": j.get("what", ""),
        })
        if r.get("classes") and len(samples) < 12:
            k = sorted(r["classes"].items(), key=lambda kv: -kv[1])[:3]
            samples.append({"job": r["job"], "obligations_by_class": dict(k), "what": j.get("what", ""), "obligations": r.get("sample_obligations", [])})
    anyB = bool(bounded)
    only_bounded = not proof
    level = "proof"
    if only_bounded:
        level = "model_checking"
    try:
        ns = {"claim": lambda *a, **k: None, "na": lambda *a, **k: None}
        exec(open(os.path.join(verif, "tools", "claims.py")).read(), ns)
        level = ns.get("LEVEL_OVERRIDE", {}).get(prop, level)
    except Exception:
        pass
    cov = {
        "obligations": obligations,
        "discharged": discharged,
        "checker_cmd": "goto-cc -D__NO_CTYPE -include contracts/<family>.h --function <entry> harness/<h>.c ; goto-instrument --dfcc <entry> --enforce-contract <fn> --replace-call-with-contract <callee>... --apply-loop-contracts ; cbmc --object-bits 12 [--unwind N --unwinding-assertions] (per-job commands in jobs/*.py)",
        "trusted_base": trusted,
        "functions_under_contract": functions,
        "callee_contracts_used_at_call_sites": replaced,
        "proof_jobs": len(proof),
        "bounded_jobs": len(bounded),
        "bounded_obligations": b_obl,
        "bounded_discharged": b_dis,
        "bounded_note": "bounded jobs are CBMC checks of the same real functions with the stated bound; they are never counted in obligations/discharged",
        "known_finding_confirmation_jobs": len(conf),
        "solver_s_total": round(sum(r.get("solver_s", 0.0) for r in results), 1),
        "annotation": ann,
        "jobs": per_job,
        "samples": samples or [{"note": "no job produced obligations"}],
        "evaluations": obligations + b_obl,
        "distinct_nontrivial": discharged + b_dis,
        "rule": "one evaluation = one CBMC proof obligation (contract clause, loop-invariant base/step, frame, decreases, or standard safety check) generated from /repo's current sources; distinct by (job, obligation id); non-trivial = status decided by the back end, reachability guards excluded",
        "explanation": "contract-based deductive verification with CBMC DFCC; see DESIGN.md section for this property",
        "exhaustive": False,
        "tool_errors": [{"job": r["job"], "status": r["status"], "note": (r.get("note") or "")[:300]} for r in tool_errors],
        "known_findings_reported": [rec["id"] for rec, f, r in known_hits],
    }
    if level == "model_checking":
        cov["states"] = max(1, b_obl)
        cov["transitions"] = max(1, b_dis)
        cov["traces_validated_against_impl"] = 0
    ev = {
        "property_id": prop,
        "tier": tier if tier in ("quick", "thorough") else "quick",
        "seed": seed,
        "level": level,
        "coverage": cov,
        "assumptions": assumptions,
        "wall_s": round(wall, 1),
        "violations": len({(j["name"], f["property"]) for j, f, r in violations}),
    }
    path = os.path.join(verif, "evidence", prop + ".json")
    json.dump(ev, open(path, "w"), indent=1)
    return path
