#!/usr/bin/env python3
"""Validate MANIFEST.json and evidence/*.json against the schemas (uses python3-vt's jsonschema)."""
import json, sys, glob, jsonschema
ok = True
try:
    jsonschema.validate(json.load(open('/verif/MANIFEST.json')), json.load(open('/root/.vp/MANIFEST.schema.json')))
    print("MANIFEST ok")
except Exception as e:
    print("MANIFEST INVALID", str(e)[:400]); ok = False
sch = json.load(open('/root/.vp/EVIDENCE.schema.json'))
for f in sorted(glob.glob('/verif/evidence/*.json')):
    try:
        jsonschema.validate(json.load(open(f)), sch); print(f, "ok")
    except Exception as e:
        print(f, "INVALID", str(e)[:400]); ok = False
sys.exit(0 if ok else 1)
