"""Native replay of CBMC counterexamples against the real code (DESIGN 1.4)."""
import os, sys, json, subprocess, tempfile, shutil, glob


def build_and_run(replayer, kv_path, repo, verif, defines=(), entry='', harness=''):
    if replayer == "harness":
        return run_harness_natively(kv_path, repo, verif, defines, entry, harness)
    src = os.path.join(verif, "replay", replayer + ".c")
    if not os.path.exists(src):
        return None, "no replayer " + replayer
    tmp = tempfile.mkdtemp(prefix="verif_replay_")
    try:
        exe = os.path.join(tmp, "rp")
        libs = sorted(glob.glob(os.path.join(repo, "libscpi", "src", "*.c")))
        cmd = ["cc", "-g", "-O0", "-fsanitize=address,undefined", "-fno-sanitize-recover=undefined",
               "-I", os.path.join(repo, "libscpi", "inc"), "-I", os.path.join(repo, "libscpi", "src"),
               "-I", os.path.join(verif, "replay")] + ["-D" + d for d in defines] + [src] + libs + ["-lm", "-o", exe]
        p = subprocess.run(cmd, stdout=subprocess.PIPE, stderr=subprocess.STDOUT, timeout=300)
        if p.returncode != 0:
            return None, "replayer does not build: " + p.stdout.decode("utf-8", "replace")[-800:]
        env = dict(os.environ, ASAN_OPTIONS="detect_leaks=0:abort_on_error=0", UBSAN_OPTIONS="print_stacktrace=1")
        p = subprocess.run([exe, kv_path, entry], stdout=subprocess.PIPE, stderr=subprocess.STDOUT, timeout=120, env=env)
        out = p.stdout.decode("utf-8", "replace")
        if "REPRODUCED" in out.replace("NOT-REPRODUCED", "") or "ERROR: AddressSanitizer" in out or "runtime error:" in out:
            return True, out[-1500:]
        if "NOT-REPRODUCED" in out:
            return False, out[-800:]
        return None, out[-800:]
    finally:
        shutil.rmtree(tmp, ignore_errors=True)


def run_harness_natively(kv_path, repo, verif, defines, entry, harness):
    """compile the job's own harness file natively with replay/shim.h and run its entry on the recorded inputs"""
    tmp = tempfile.mkdtemp(prefix="verif_replay_")
    try:
        exe = os.path.join(tmp, "rp")
        main = os.path.join(tmp, "m.c")
        open(main, "w").write('#include "%s"\n#include "%s"\n' % (os.path.join(verif, "harness", harness), os.path.join(verif, "replay", "harness_main.c")))
        htxt = open(os.path.join(verif, "harness", harness)).read()
        import re as _re
        included = set(_re.findall(r'#include "(\w+\.c)"', htxt))
        rest = [f for f in sorted(glob.glob(os.path.join(repo, "libscpi", "src", "*.c"))) if os.path.basename(f) not in included]
        cmd = ["cc", "-g", "-O0", "-w", "-fsanitize=address,undefined", "-fno-sanitize-recover=undefined", "-DENTRY=" + entry,
               "-I", os.path.join(repo, "libscpi", "inc"), "-I", os.path.join(repo, "libscpi", "src"),
               "-I", os.path.join(verif, "harness"), "-I", os.path.join(verif, "replay"),
               "-include", os.path.join(verif, "replay", "shim.h")] + ["-D" + d for d in defines] + [main] + rest + ["-lm", "-o", exe]
        p = subprocess.run(cmd, stdout=subprocess.PIPE, stderr=subprocess.STDOUT, timeout=300)
        if p.returncode != 0:
            return None, "harness does not build natively: " + p.stdout.decode("utf-8", "replace")[-800:]
        env = dict(os.environ, ASAN_OPTIONS="detect_leaks=0:abort_on_error=0", UBSAN_OPTIONS="print_stacktrace=1")
        p = subprocess.run([exe, kv_path], stdout=subprocess.PIPE, stderr=subprocess.STDOUT, timeout=120, env=env)
        out = p.stdout.decode("utf-8", "replace")
        if "REPRODUCED" in out.replace("NOT-REPRODUCED", "") or "ERROR: AddressSanitizer" in out or "runtime error:" in out:
            return True, out[-1500:]
        if "NOT-REPRODUCED" in out:
            return False, out[-800:]
        return None, out[-800:]
    finally:
        shutil.rmtree(tmp, ignore_errors=True)


def kv_from_record(rec, path):
    with open(path, "w") as f:
        for k, (v, w) in rec.get("inputs", {}).get("kv", {}).items():
            f.write("%s %d %d\n" % (k.replace(" ", ""), v, w))


def run(replayer, replay_path, repo, verif):
    rec = json.load(open(replay_path))
    kv = replay_path[:-5] + ".kv"
    kv_from_record(rec, kv)
    ok, out = build_and_run(replayer, kv, repo, verif, rec.get("defines", []), rec.get("entry", ""), rec.get("harness", ""))
    rec["native_replay"] = {"replayer": replayer, "reproduced": ok, "output": out}
    json.dump(rec, open(replay_path, "w"), indent=1)
    return ok


def cli(replay_path, repo, verif):
    rec = json.load(open(replay_path))
    print("property   :", rec.get("property"))
    print("job        :", rec.get("job"))
    print("obligation :", rec.get("obligation"), "-", rec.get("description"))
    print("source     :", rec.get("source"))
    rp = rec.get("replayer")
    if not rp:
        print("no native replayer for this job family; verifier output:")
        print(rec.get("verifier_output"))
        return 1
    ok = run(rp, replay_path, repo, verif)
    rec = json.load(open(replay_path))
    print(rec["native_replay"]["output"])
    return 1 if ok else 0
