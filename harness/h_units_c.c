#include "ghost.c"
size_t gh_li;
#include "units.c"
void h_SCPI_NumberToStr(void) { scpi_t *c; const scpi_choice_def_t *sp; scpi_number_t *v; char *s; size_t n; size_t r = SCPI_NumberToStr(c, sp, v, s, n);
    if (r > 0) REACH("SCPI_NumberToStr:text"); else REACH("SCPI_NumberToStr:none"); }
void h_translateUnitInverse(void) { const scpi_unit_def_t *u; scpi_unit_t t; const char *r = translateUnitInverse(u, t); if (r) REACH("translateUnitInverse:found"); else REACH("translateUnitInverse:none"); }
void h_SCPI_ChoiceToName(void) { const scpi_choice_def_t *o; int32_t t; const char **x; scpi_bool_t r = SCPI_ChoiceToName(o, t, x); if (r) REACH("SCPI_ChoiceToName:found"); else REACH("SCPI_ChoiceToName:none"); }
