/* C14: integer-to-text, full domain.  The digit loops are bounded by the operand width, so full
 * unwinding with unwinding assertions is a complete proof (P/U) - every value, base, sign flag
 * and buffer length is symbolic.  The specification is written from the statement:
 *   canonical digits (upper case, no leading zero, '-' only for negative signed decimals incl. the
 *   most negative value), returns the number of characters produced, on a short buffer the leading
 *   characters that fit, nothing beyond the buffer, NUL whenever a byte remains. */
#include "ghost.c"
#include "utils.c"
#ifndef W
#define W 32
#endif
#ifndef FIXBASE
#define FIXBASE 10
#endif
#if W == 32
typedef uint32_t uv_t; typedef int32_t sv_t;
#define FMT UInt32ToStrBaseSign
#define NBITS 32
#else
typedef uint64_t uv_t; typedef int64_t sv_t;
#define FMT UInt64ToStrBaseSign
#define NBITS 64
#endif
#define BUFSZ 72
static int bitlen(uv_t v) { int n = 0; int i; for (i = 0; i < NBITS; i++) if ((v >> i) & 1) n = i + 1; return n; }
static int ndig10(uv_t v) {
    static const uv_t p10[] = {1ull,10ull,100ull,1000ull,10000ull,100000ull,1000000ull,10000000ull,100000000ull,1000000000ull
#if W == 64
        ,10000000000ull,100000000000ull,1000000000000ull,10000000000000ull,100000000000000ull,1000000000000000ull,10000000000000000ull,100000000000000000ull,1000000000000000000ull,10000000000000000000ull
#endif
    };
    int n = 1, i; for (i = 1; i < (int)(sizeof p10 / sizeof p10[0]); i++) if (v >= p10[i]) n = i + 1; return n;
}
/* expected full length (without NUL) */
static int full_len(uv_t val, int base, int sign, uv_t *mag, int *neg) {
    int b = (base == 2 || base == 8 || base == 16) ? base : 10;
    *neg = (sign && b == 10 && (sv_t) val < 0);
    *mag = *neg ? (uv_t)(0 - val) : val;
    if (*mag == 0) return 1;
    if (b == 2) return bitlen(*mag) + *neg;
    if (b == 8) return (bitlen(*mag) + 2) / 3 + *neg;
    if (b == 16) return (bitlen(*mag) + 3) / 4 + *neg;
    return ndig10(*mag) + *neg;
}
static int digval(char c) { return (c >= '0' && c <= '9') ? c - '0' : (c >= 'A' && c <= 'F') ? c - 'A' + 10 : 99; }

void h_fmt_struct(void) {
    uv_t val = W == 32 ? nondet_uint() : nondet_u64(); int8_t base = nondet_i8(); scpi_bool_t sign = nondet_bool();
    size_t len = nondet_size(); char buf[BUFSZ + 2]; char full[BUFSZ + 2];
#ifdef FIXBASE
    __CPROVER_assume(base == FIXBASE);
#endif
    __CPROVER_assume(len <= BUFSZ);
    buf[len] = 0x55; buf[len + 1] = 0x55;               /* canaries: nothing beyond the buffer */
    size_t r = FMT(val, buf, len, base, sign);
    size_t rf = FMT(val, full, BUFSZ, base, sign);       /* same value, room for everything */
    uv_t mag; int neg; int n = full_len(val, base, sign, &mag, &neg);
    int b = (base == 2 || base == 8 || base == 16) ? base : 10;
    __CPROVER_assert(rf == (size_t) n, "C14: number of characters is the canonical length");
    __CPROVER_assert(full[rf] == 0, "C14: NUL after a complete result");
    __CPROVER_assert(r == (len < rf ? len : rf), "C14: short buffer gets the characters that fit, result counts them");
    __CPROVER_assert(buf[len] == 0x55 && buf[len + 1] == 0x55, "C14/C15: nothing written beyond the buffer");
    __CPROVER_assert(r >= len || buf[r] == 0, "C14: NUL whenever a byte remains");
    size_t k = nondet_size(); __CPROVER_assume(k < rf);
    __CPROVER_assert(k >= r || buf[k] == full[k], "C14: truncation keeps the leading characters");
    __CPROVER_assert((full[0] == '-') == (neg != 0), "C14: '-' exactly for negative signed decimals");
    if (k >= (size_t) neg) {
        __CPROVER_assert(digval(full[k]) < b, "C14: every digit is an upper-case digit of the base");
        if (k == (size_t) neg && mag != 0) __CPROVER_assert(full[k] != '0', "C14: no leading zero");
    }
    REACH("fmt_struct");
}

/* value exactness by decoding the text again (bases 2, 8, 16: shifts; base 10: Horner) */
void h_fmt_value(void) {
    uv_t val = W == 32 ? nondet_uint() : nondet_u64(); scpi_bool_t sign = nondet_bool(); char full[BUFSZ + 2];
    int8_t base = FIXBASE;
#ifdef VALMAX
    __CPROVER_assume(val <= VALMAX || val >= (uv_t)(0 - (uv_t) VALMAX));
#endif
    size_t rf = FMT(val, full, BUFSZ, base, sign);
    uv_t mag; int neg; (void) full_len(val, base, sign, &mag, &neg);
    uv_t acc = 0; size_t i;
    for (i = neg; i < rf; i++) {
        int d = digval(full[i]);
        __CPROVER_assert(d < FIXBASE, "digit in range");
#if FIXBASE == 2
        acc = (acc << 1) | (uv_t) d;
#elif FIXBASE == 8
        acc = (acc << 3) | (uv_t) d;
#elif FIXBASE == 16
        acc = (acc << 4) | (uv_t) d;
#else
        acc = acc * 10u + (uv_t) d;
#endif
    }
    __CPROVER_assert(acc == mag, "C14: the digits denote exactly the value");
    REACH("fmt_value");
}

/* sign rule alone (cheap enough for 64 bit in the quick tier) */
void h_fmt_sign(void) {
    uv_t val = W == 32 ? nondet_uint() : nondet_u64(); scpi_bool_t sign = nondet_bool(); int8_t base = FIXBASE; char full[BUFSZ + 2];
#ifdef SIGNLO   /* bounded variant: |value| < 2^SIGNLO (the values around the 32-bit boundary, where a narrower routine could be mistaken for this one) */
    __CPROVER_assume(val < ((uv_t) 1 << SIGNLO) || val >= (uv_t) (0 - ((uv_t) 1 << SIGNLO)));
#endif
    size_t rf = FMT(val, full, BUFSZ, base, sign);
    int b = (base == 2 || base == 8 || base == 16) ? base : 10;
    __CPROVER_assert(rf >= 1 && (full[0] == '-') == (sign && b == 10 && (sv_t) val < 0), "C14: '-' exactly for negative signed decimals, for every value");
    REACH("fmt_sign");
}
/* public wrappers */
void h_fmt_wrappers(void) {
    char a[BUFSZ], b[BUFSZ]; size_t len = nondet_size(); __CPROVER_assume(len <= BUFSZ);
    size_t k = nondet_size(); __CPROVER_assume(k < BUFSZ);
#if W == 32
    int32_t v = nondet_int(); uint32_t u = nondet_uint(); int8_t base = nondet_i8();
    size_t r1 = SCPI_Int32ToStr(v, a, len), r2 = UInt32ToStrBaseSign((uint32_t) v, b, len, 10, TRUE);
    __CPROVER_assert(r1 == r2 && (k >= r1 || a[k] == b[k]), "SCPI_Int32ToStr is the signed decimal formatter");
    r1 = SCPI_UInt32ToStrBase(u, a, len, base); r2 = UInt32ToStrBaseSign(u, b, len, base, FALSE);
    __CPROVER_assert(r1 == r2 && (k >= r1 || a[k] == b[k]), "SCPI_UInt32ToStrBase is the unsigned formatter");
#else
    int64_t v = nondet_long(); uint64_t u = nondet_u64(); int8_t base = nondet_i8();
    size_t r1 = SCPI_Int64ToStr(v, a, len), r2 = UInt64ToStrBaseSign((uint64_t) v, b, len, 10, TRUE);
    __CPROVER_assert(r1 == r2 && (k >= r1 || a[k] == b[k]), "SCPI_Int64ToStr is the signed decimal formatter");
    r1 = SCPI_UInt64ToStrBase(u, a, len, base); r2 = UInt64ToStrBaseSign(u, b, len, base, FALSE);
    __CPROVER_assert(r1 == r2 && (k >= r1 || a[k] == b[k]), "SCPI_UInt64ToStrBase is the unsigned formatter");
#endif
    REACH("fmt_wrappers");
}
/* enforcement of the shape contracts (contracts/result.h) that the result functions rely on */
void h_UInt32ToStrBaseSign(void) { uint32_t v; char *s; size_t n; int8_t b; scpi_bool_t sg = nondet_bool(); UInt32ToStrBaseSign(v, s, n, b, sg); REACH("UInt32ToStrBaseSign"); }
void h_UInt64ToStrBaseSign(void) { uint64_t v; char *s; size_t n; int8_t b; scpi_bool_t sg = nondet_bool(); UInt64ToStrBaseSign(v, s, n, b, sg); REACH("UInt64ToStrBaseSign"); }
void h_SCPI_UInt32ToStrBase(void) { uint32_t v; char *s; size_t n; int8_t b; SCPI_UInt32ToStrBase(v, s, n, b); REACH("SCPI_UInt32ToStrBase"); }
