#include "ghost.c"
size_t gh_li;
#include "parser.c"
void h_SCPI_Parameter(void) { KEEP_CALLBACK_CONTRACTS; scpi_t *c; scpi_parameter_t *p; scpi_bool_t m = nondet_bool(); scpi_bool_t r = SCPI_Parameter(c, p, m);
    if (r) REACH("SCPI_Parameter:ok"); else if (m) REACH("SCPI_Parameter:fail-mandatory"); else REACH("SCPI_Parameter:fail-optional"); }
void h_SCPI_ParamIsNumber(void) { scpi_parameter_t *p; scpi_bool_t s = nondet_bool(); SCPI_ParamIsNumber(p, s); REACH("SCPI_ParamIsNumber"); }
#define HT(fn, T) void h_##fn(void) { KEEP_CALLBACK_CONTRACTS; scpi_t *c; scpi_parameter_t *p; T *v; scpi_bool_t r = fn(c, p, v); if (r) REACH(#fn ":ok"); else REACH(#fn ":fail"); }
void h_ParamSignToUInt32(void) { KEEP_CALLBACK_CONTRACTS; scpi_t *c; scpi_parameter_t *p; uint32_t *v; scpi_bool_t s = nondet_bool(); scpi_bool_t r = ParamSignToUInt32(c, p, v, s); if (r) REACH("ParamSignToUInt32:ok"); else REACH("ParamSignToUInt32:fail"); }
void h_ParamSignToUInt64(void) { KEEP_CALLBACK_CONTRACTS; scpi_t *c; scpi_parameter_t *p; uint64_t *v; scpi_bool_t s = nondet_bool(); scpi_bool_t r = ParamSignToUInt64(c, p, v, s); if (r) REACH("ParamSignToUInt64:ok"); else REACH("ParamSignToUInt64:fail"); }
HT(SCPI_ParamToInt32, int32_t) HT(SCPI_ParamToUInt32, uint32_t) HT(SCPI_ParamToInt64, int64_t) HT(SCPI_ParamToUInt64, uint64_t) HT(SCPI_ParamToFloat, float) HT(SCPI_ParamToDouble, double)
#define HR(fn, T) void h_##fn(void) { KEEP_CALLBACK_CONTRACTS; scpi_t *c; T *v; scpi_bool_t m = nondet_bool(); scpi_bool_t r = fn(c, v, m); if (r) REACH(#fn ":ok"); else REACH(#fn ":fail"); }
void h_ParamSignUInt32(void) { KEEP_CALLBACK_CONTRACTS; scpi_t *c; uint32_t *v; scpi_bool_t m = nondet_bool(), s = nondet_bool(); scpi_bool_t r = ParamSignUInt32(c, v, m, s); if (r) REACH("ParamSignUInt32:ok"); else REACH("ParamSignUInt32:fail"); }
void h_ParamSignUInt64(void) { KEEP_CALLBACK_CONTRACTS; scpi_t *c; uint64_t *v; scpi_bool_t m = nondet_bool(), s = nondet_bool(); scpi_bool_t r = ParamSignUInt64(c, v, m, s); if (r) REACH("ParamSignUInt64:ok"); else REACH("ParamSignUInt64:fail"); }
HR(SCPI_ParamInt32, int32_t) HR(SCPI_ParamUInt32, uint32_t) HR(SCPI_ParamInt64, int64_t) HR(SCPI_ParamUInt64, uint64_t) HR(SCPI_ParamFloat, float) HR(SCPI_ParamDouble, double)
void h_SCPI_ParamCharacters(void) { KEEP_CALLBACK_CONTRACTS; scpi_t *c; const char **v; size_t *n; scpi_bool_t m = nondet_bool(); scpi_bool_t r = SCPI_ParamCharacters(c, v, n, m); if (r) REACH("SCPI_ParamCharacters:ok"); else REACH("SCPI_ParamCharacters:fail"); }
void h_SCPI_ParamArbitraryBlock(void) { KEEP_CALLBACK_CONTRACTS; scpi_t *c; const char **v; size_t *n; scpi_bool_t m = nondet_bool(); scpi_bool_t r = SCPI_ParamArbitraryBlock(c, v, n, m); if (r) REACH("SCPI_ParamArbitraryBlock:ok"); else REACH("SCPI_ParamArbitraryBlock:fail"); }
void h_SCPI_ParamCopyText(void) { KEEP_CALLBACK_CONTRACTS; scpi_t *c; char *b; size_t bl; size_t *cl; scpi_bool_t m = nondet_bool(); scpi_bool_t r = SCPI_ParamCopyText(c, b, bl, cl, m); if (r) REACH("SCPI_ParamCopyText:ok"); else REACH("SCPI_ParamCopyText:fail"); }
