/* C07 round-trip lemmas over the real code: format with the result API into a captured output, lex the
 * captured text with the real program-data recogniser, decode with the matching parameter converter,
 * compare with the original value.  libc conversions: stubs/libc_impl.c. */
#include "ghost.c"
size_t gh_li;
#include "../stubs/libc_impl.c"
#include "fifo.c"
#include "error.c"
#include "ieee488.c"
#include "utils.c"
#include "lexer.c"
#include "parser.c"
#define OUTMAX 80
static char out[OUTMAX + 1]; static size_t outn;
static size_t cap_write(scpi_t *c, const char *d, size_t n) { size_t i; (void)c; for (i = 0; i < n; i++) if (outn < OUTMAX) out[outn++] = d[i]; return n; }
static scpi_t ctx; static scpi_interface_t itf; static scpi_error_t queue[2];
static void setup(void) { itf.write = cap_write; ctx.interface = &itf; ctx.output_count = 0; SCPI_ErrorInit(&ctx, queue, 2); outn = 0; }
static void relex(scpi_token_t *t) { lex_state_t s; out[outn] = 0; s.buffer = s.pos = out; s.len = (int) outn; int r = scpiParser_parseProgramData(&s, t);
    __CPROVER_assert(r == (int) outn && s.pos == out + outn, "C07: the emitted text is one complete program-data item"); }
#ifndef RTBASE
#define RTBASE 16
#endif
void h_rt_u32(void) {
    uint32_t v = nondet_uint(), back = 0; setup();
    SCPI_ResultUInt32Base(&ctx, v, RTBASE);
    scpi_token_t t; relex(&t);
    __CPROVER_assert(SCPI_ParamToUInt32(&ctx, &t, &back) && back == v, "C07: unsigned 32-bit value decodes back exactly");
    REACH("rt_u32");
}
void h_rt_i32(void) {
    int32_t v = nondet_int(), back = 0; setup();
#ifdef VALMAX
    __CPROVER_assume(v <= VALMAX && v >= -VALMAX);
#endif
    SCPI_ResultInt32(&ctx, v);
    scpi_token_t t; relex(&t);
    __CPROVER_assert(SCPI_ParamToInt32(&ctx, &t, &back) && back == v, "C07: signed 32-bit decimal decodes back exactly");
    REACH("rt_i32");
}
void h_rt_u64(void) {
    uint64_t v = nondet_u64(), back = 0; setup();
    SCPI_ResultUInt64Base(&ctx, v, RTBASE);
    scpi_token_t t; relex(&t);
    __CPROVER_assert(SCPI_ParamToUInt64(&ctx, &t, &back) && back == v, "C07: unsigned 64-bit value decodes back exactly");
    REACH("rt_u64");
}
/* C04/C07: a nondecimal literal decodes to its exact value as floating point (all values below 2^53) */
void h_rt_hex_double(void) {
    uint64_t v = nondet_u64(); double back = -1.0; __CPROVER_assume(v < (1ull << 53)); setup();
    SCPI_ResultUInt64Base(&ctx, v, 16);
    scpi_token_t t; relex(&t);
    __CPROVER_assert(SCPI_ParamToDouble(&ctx, &t, &back) && back == (double) v, "C04: #H literal decodes to its exact value as double");
    REACH("rt_hex_double");
}
void h_rt_bool(void) {
    scpi_bool_t v = nondet_bool(); setup(); SCPI_ResultBool(&ctx, v);
    scpi_token_t t; relex(&t); int32_t back = 7;
    __CPROVER_assert(t.type == SCPI_TOKEN_DECIMAL_NUMERIC_PROGRAM_DATA && SCPI_ParamToInt32(&ctx, &t, &back) && (back != 0) == (v != 0), "C07: boolean decodes back");
    REACH("rt_bool");
}
#ifndef TLEN
#define TLEN 4
#endif
void h_rt_text(void) {
    char txt[TLEN + 1], back[TLEN + 2]; int n = nondet_int(), i; __CPROVER_assume(n >= 0 && n <= TLEN);
    for (i = 0; i < TLEN; i++) { unsigned k = nondet_u8() % 4; txt[i] = i < n ? (k == 0 ? '"' : k == 1 ? '\'' : k == 2 ? 'a' : ' ') : 0; }
    txt[n] = 0; setup();
    SCPI_ResultText(&ctx, txt);
    /* send it back as the parameter of a unit and read it with the text reader */
    out[outn] = 0; ctx.param_list.lex_state.buffer = ctx.param_list.lex_state.pos = out; ctx.param_list.lex_state.len = (int) outn; ctx.input_count = 0;
    size_t cl = 99; scpi_bool_t ok = SCPI_ParamCopyText(&ctx, back, sizeof back, &cl, TRUE);
    __CPROVER_assert(ok && cl == (size_t) n, "C07: quoted text is accepted and has the original length");
    int k = nondet_int(); __CPROVER_assume(k >= 0 && k < TLEN);
    __CPROVER_assert(k >= n || back[k] == txt[k], "C07: text with both quote characters decodes back unchanged");
    REACH("rt_text");
}
void h_rt_block(void) {
    unsigned char data[3]; size_t n = nondet_size(), i; __CPROVER_assume(n <= 3);
    for (i = 0; i < 3; i++) data[i] = nondet_u8();
    setup(); SCPI_ResultArbitraryBlock(&ctx, data, n);
    scpi_token_t t; relex(&t);
    __CPROVER_assert(t.type == SCPI_TOKEN_ARBITRARY_BLOCK_PROGRAM_DATA && t.len == (int) n, "C07: block is accepted with the original length");
    size_t k = nondet_size(); __CPROVER_assume(k < 3);
    __CPROVER_assert(k >= n || (unsigned char) t.ptr[k] == data[k], "C07: block bytes decode back unchanged");
    REACH("rt_block");
}
