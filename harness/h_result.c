#include "ghost.c"
size_t gh_li;
#include "parser.c"
#define H0(fn, call) void h_##fn(void) { KEEP_CALLBACK_CONTRACTS; scpi_t *c; call; REACH(#fn); }
void h_SCPI_ResultCharacters(void) { KEEP_CALLBACK_CONTRACTS; scpi_t *c; const char *d; size_t n; SCPI_ResultCharacters(c, d, n); if (n > 0 && d) REACH("SCPI_ResultCharacters:data"); else REACH("SCPI_ResultCharacters:empty"); }
void h_resultUInt32BaseSign(void) { KEEP_CALLBACK_CONTRACTS; scpi_t *c; uint32_t v; int8_t b; scpi_bool_t s = nondet_bool(); resultUInt32BaseSign(c, v, b, s); REACH("resultUInt32BaseSign"); }
void h_resultUInt64BaseSign(void) { KEEP_CALLBACK_CONTRACTS; scpi_t *c; uint64_t v; int8_t b; scpi_bool_t s = nondet_bool(); resultUInt64BaseSign(c, v, b, s); REACH("resultUInt64BaseSign"); }
void h_SCPI_ResultInt32(void) { KEEP_CALLBACK_CONTRACTS; scpi_t *c; int32_t v; SCPI_ResultInt32(c, v); REACH("SCPI_ResultInt32"); }
void h_SCPI_ResultUInt32Base(void) { KEEP_CALLBACK_CONTRACTS; scpi_t *c; uint32_t v; int8_t b; SCPI_ResultUInt32Base(c, v, b); REACH("SCPI_ResultUInt32Base"); }
void h_SCPI_ResultInt64(void) { KEEP_CALLBACK_CONTRACTS; scpi_t *c; int64_t v; SCPI_ResultInt64(c, v); REACH("SCPI_ResultInt64"); }
void h_SCPI_ResultUInt64Base(void) { KEEP_CALLBACK_CONTRACTS; scpi_t *c; uint64_t v; int8_t b; SCPI_ResultUInt64Base(c, v, b); REACH("SCPI_ResultUInt64Base"); }
void h_SCPI_ResultBool(void) { KEEP_CALLBACK_CONTRACTS; scpi_t *c; scpi_bool_t v = nondet_bool(); SCPI_ResultBool(c, v); REACH("SCPI_ResultBool"); }
void h_SCPI_ResultFloat(void) { KEEP_CALLBACK_CONTRACTS; scpi_t *c; float v; SCPI_ResultFloat(c, v); REACH("SCPI_ResultFloat"); }
void h_SCPI_ResultDouble(void) { KEEP_CALLBACK_CONTRACTS; scpi_t *c; double v; SCPI_ResultDouble(c, v); REACH("SCPI_ResultDouble"); }
void h_SCPI_ResultArbitraryBlockHeader(void) { KEEP_CALLBACK_CONTRACTS; scpi_t *c; size_t n; SCPI_ResultArbitraryBlockHeader(c, n); REACH("SCPI_ResultArbitraryBlockHeader"); }
void h_SCPI_ResultArbitraryBlockData(void) { KEEP_CALLBACK_CONTRACTS; scpi_t *c; const void *d; size_t n; size_t r = SCPI_ResultArbitraryBlockData(c, d, n);
    if (r > 0) REACH("SCPI_ResultArbitraryBlockData:written"); else REACH("SCPI_ResultArbitraryBlockData:none"); }
void h_SCPI_ResultArbitraryBlock(void) { KEEP_CALLBACK_CONTRACTS; scpi_t *c; const void *d; size_t n; SCPI_ResultArbitraryBlock(c, d, n); REACH("SCPI_ResultArbitraryBlock"); }
