/* C03 bounded layer: the real matchCommand (with the real matchPattern / compareStr* / strnpbrk under
 * it) against a reference matcher written from the statement, for one fixed pattern (-DPATTERN) and
 * every header of up to HLEN bytes over the pattern's own letters in both cases plus : ? * 0 9 _ and a
 * foreign letter.  Numbers: value where a suffix is given, the caller's default where it is left out
 * or the keyword is skipped. */
#include "ghost.c"
#include "../stubs/libc_impl.c"
#include "utils.c"
#ifndef HLEN
#define HLEN 8
#endif
#ifndef PATTERN
#define PATTERN "SYSTem:ERRor[:NEXT]?"
#endif
#define MAXKW 5
typedef struct { int start, len, shortlen, optional, hasnum; } kw_t;
static const char PAT[] = PATTERN;
static int up(int c) { return (c >= 'a' && c <= 'z') ? c - 32 : c; }
static int isdg(int c) { return c >= '0' && c <= '9'; }
/* pattern -> keywords; returns count, sets *query, *common */
static int parse_pattern(kw_t *kw, int *query, int *common) {
    int n = (int) sizeof(PAT) - 1, i = 0, k = 0, opt = 0;
    *query = (n > 0 && PAT[n - 1] == '?'); if (*query) n--;
    *common = (n > 0 && PAT[0] == '*');
    while (i < n && k < MAXKW) {
        if (PAT[i] == '[') { opt = 1; i++; continue; }
        if (PAT[i] == ']') { opt = 0; i++; continue; }
        if (PAT[i] == ':') { i++; continue; }
        int s = i, sh = -1; while (i < n && PAT[i] != ':' && PAT[i] != '[' && PAT[i] != ']') { if (sh < 0 && PAT[i] >= 'a' && PAT[i] <= 'z') sh = i - s; i++; }
        kw[k].start = s; kw[k].len = i - s; kw[k].hasnum = (PAT[i - 1] == '#'); if (kw[k].hasnum) kw[k].len--;
        kw[k].shortlen = (sh < 0 || sh > kw[k].len) ? kw[k].len : sh; kw[k].optional = opt; k++;
    }
    return k;
}
static int same_ci(const char *a, const char *b, int n) { int i; for (i = 0; i < n; i++) if (up(a[i]) != up(b[i])) return 0; return 1; }
/* mnemonic h[0..m) against keyword: exactly short or long form, then digits only if hasnum */
static int kw_match(const kw_t *k, const char *h, int m, int *num, int deflt) {
    int form, L;
    for (form = 0; form < 2; form++) {
        L = form ? k->shortlen : k->len;
        if (m >= L && same_ci(PAT + k->start, h, L)) {
            int i, v = 0, nd = 0;
            for (i = L; i < m; i++) { if (!isdg(h[i])) break; v = v * 10 + (h[i] - '0'); nd++; }
            if (i == m && (nd == 0 || k->hasnum)) { *num = nd ? v : deflt; return 1; }
        }
    }
    return 0;
}
static int spec_match(const char *h, int hl, int *nums, int cap, int deflt) {
    kw_t kw[MAXKW]; int query, common, nk = parse_pattern(kw, &query, &common), i, j = 0, ni = 0, p = 0;
    if (common) { int n = (int) sizeof(PAT) - 1; return hl == n && same_ci(PAT, h, n); }
    if (hl > 0 && h[0] == '*') return 0;
    if (query) { if (hl == 0 || h[hl - 1] != '?') return 0; hl--; }
    else if (hl > 0 && h[hl - 1] == '?') return 0;
    if (hl > 0 && h[0] == ':') p = 1;
    if (p >= hl) return 0;
    for (i = 0; i < nk; i++) {
        int e = p, num; while (e < hl && h[e] != ':') e++;
        if (p <= hl && j >= 0 && p < hl + 1 && (p < hl || 0) && kw_match(&kw[i], h + p, e - p, &num, deflt)) { if (kw[i].hasnum) { if (ni < cap) nums[ni] = num; ni++; } p = e + 1; if (e >= hl) { p = hl + 1; } continue; }
        if (kw[i].optional) { if (kw[i].hasnum) { if (ni < cap) nums[ni] = deflt; ni++; } continue; }
        return 0;
    }
    return p >= hl + 1;   /* every mnemonic of the header was consumed */
}
static const char EXTRA[] = {':', '?', '*', '0', '9', '_', 'X'};
void h_match(void) {
    char h[HLEN + 1]; int hl = nondet_int(), i; __CPROVER_assume(hl >= 0 && hl <= HLEN);
    int pn = (int) sizeof(PAT) - 1;
    for (i = 0; i < HLEN; i++) {
        unsigned k = nondet_u8(); unsigned c2 = nondet_bool();
        __CPROVER_assume(k < (unsigned) pn + sizeof EXTRA);
        char c = k < (unsigned) pn ? PAT[k] : EXTRA[k - pn];
        if (c == '[' || c == ']' || c == '#') c = 'X';
        if (c2 && c >= 'A' && c <= 'Z') c = (char)(c + 32); else if (c2 && c >= 'a' && c <= 'z') c = (char)(c - 32);
        h[i] = i < hl ? c : 0;
    }
    h[HLEN] = 0;
    int32_t nums[3] = {-7, -7, -7}, ref[3] = {-7, -7, -7}; int32_t deflt = 42;
    scpi_bool_t r = matchCommand(PAT, h, (size_t) hl, nums, 3, deflt);
    int s = spec_match(h, hl, ref, 3, deflt);
#ifndef NUMBERS_ONLY
    __CPROVER_assert((r != 0) == (s != 0), "C03: header accepted iff it is in the pattern's short/long-form language");
#endif
    if (r && s) { size_t k = nondet_size(); __CPROVER_assume(k < 3); __CPROVER_assert(nums[k] == ref[k], "C03: numeric suffixes in keyword order, default where left out or skipped"); }
    REACH("match");
}
