/* C19 bounded layer: the real list decoders (with the real lexer, conversion and error code under
 * them) against a reference list parser written from the statement, for every expression body of up
 * to BODY bytes over the statement's alphabet, every index 0..BODY+1, every capacity 0..3. */
#include "ghost.c"
size_t gh_li;
#include "fifo.c"
#include "error.c"
#include "ieee488.c"
#include "utils.c"
#include "lexer.c"
#include "parser.c"
#include "expression.c"
#ifndef BODY
#define BODY 5
#endif
static const char ALPHA[] = {'1', '2', '-', '.', ':', ',', '!', '@', ' ', 'a'};
static size_t nowrite(scpi_t *c, const char *d, size_t n) { (void)c; (void)d; return n; }
static scpi_t ctx; static scpi_interface_t itf; static scpi_error_t queue[4]; static char text[BODY + 4];
typedef struct { int ok; int range; int from[4]; int to[4]; int dims; } ent_t;
static int isd(char c) { return c >= '0' && c <= '9'; }
/* decimal number as the lexer defines it on this alphabet: -? d* (. d*)? with at least one digit; value as strtol sees it */
static int ref_num(const char *b, int n, int *p, int *val) {
    int q = *p, digits = 0, v = 0, neg = 0, seen_int = 0;
    if (q < n && b[q] == '-') { neg = 1; q++; }
    while (q < n && isd(b[q])) { v = v * 10 + (b[q] - '0'); q++; digits++; seen_int = 1; }
    if (q < n && b[q] == '.') { q++; while (q < n && isd(b[q])) { q++; digits++; } }
    if (!digits) return 0;
    *val = seen_int ? (neg ? -v : v) : 0; *p = q; return 1;
}
static int ref_spec(const char *b, int n, int *p, int *vals, int *dims) { /* a!b!c */
    int d = 0, v;
    for (;;) { if (!ref_num(b, n, p, &v)) return d == 0 ? 0 : -1; if (d < 4) vals[d] = v; d++; if (*p < n && b[*p] == '!') { (*p)++; continue; } break; }
    *dims = d; return 1;
}
/* one entry at *p; channel != 0: channel syntax.  returns 1 ok, 0 nothing there, -1 malformed */
static int ref_entry(const char *b, int n, int *p, int channel, ent_t *e) {
    int r;
    e->range = 0; e->dims = 1;
    if (!channel) { r = ref_num(b, n, p, &e->from[0]); if (!r) return 0; if (*p < n && b[*p] == ':') { (*p)++; e->range = 1; if (!ref_num(b, n, p, &e->to[0])) return -1; } return 1; }
    r = ref_spec(b, n, p, e->from, &e->dims); if (r <= 0) return r == 0 ? 0 : -1;
    if (*p < n && b[*p] == ':') { int d2; (*p)++; e->range = 1; r = ref_spec(b, n, p, e->to, &d2); if (r <= 0 || d2 != e->dims) return -1; }
    return 1;
}
static void setup(int n) {
    int i; itf.write = nowrite; ctx.interface = &itf; SCPI_ErrorInit(&ctx, queue, 4);
    text[0] = '(';
    for (i = 0; i < n; i++) { unsigned char k = nondet_u8(); __CPROVER_assume(k < sizeof ALPHA); text[1 + i] = ALPHA[k]; }
    text[1 + n] = ')'; text[2 + n] = 0;
}
void h_expr_numeric(void) {
    int n = nondet_int(), index = nondet_int(); __CPROVER_assume(n >= 0 && n <= BODY && index >= 0 && index <= BODY + 1);
    setup(n);
    scpi_parameter_t param; param.type = SCPI_TOKEN_PROGRAM_EXPRESSION; param.ptr = text; param.len = n + 2;
    scpi_bool_t isRange = nondet_bool(); int32_t from = 777, to = 888;
    scpi_expr_result_t res = SCPI_ExprNumericListEntryInt(&ctx, &param, index, &isRange, &from, &to);
    /* reference: walk the entries */
    const char *b = text + 1; int p = 0, i, r = 0, wf_prefix = 1; ent_t e;
    for (i = 0; i <= index; i++) { r = ref_entry(b, n, &p, 0, &e); if (r != 1) { wf_prefix = 0; break; } if (i < index) { if (p < n && b[p] == ',') p++; else { wf_prefix = 0; r = (p == n) ? 0 : -1; break; } } }
    /* whole-list well-formedness */
    int q = 0, wf = 1, count = 0; ent_t e2;
    if (n > 0) for (;;) { if (ref_entry(b, n, &q, 0, &e2) != 1) { wf = 0; break; } count++; if (q == n) break; if (b[q] == ',') { q++; continue; } wf = 0; break; }
    if (wf && index < count) {
        __CPROVER_assert(res == SCPI_EXPR_OK, "C19: entry of a well-formed numeric list is OK");
        __CPROVER_assert((isRange != 0) == (e.range != 0), "C19: single value versus range exactly as written");
        __CPROVER_assert(from == e.from[0] && (!e.range || to == e.to[0]), "C19: values exactly as written");
    }
    if (wf && index >= count) __CPROVER_assert(res == SCPI_EXPR_NO_MORE, "C19: NO_MORE at or beyond the number of entries");
    if (res == SCPI_EXPR_OK) {
        __CPROVER_assert(wf_prefix, "C19: OK only if this entry and all before it are well formed");
        __CPROVER_assert((isRange != 0) == (e.range != 0) && from == e.from[0] && (!e.range || to == e.to[0]), "C19: OK entry carries the written values");
    }
    __CPROVER_assert((res == SCPI_EXPR_ERROR) == (SCPI_ErrorCount(&ctx) == 1), "C19: ERROR queues exactly one error, other results none");
    REACH("expr_numeric");
}
void h_expr_channel(void) {
    int n = nondet_int(), index = nondet_int(); size_t cap = nondet_size(); __CPROVER_assume(n >= 0 && n <= BODY && index >= 0 && index <= BODY + 1 && cap <= 3);
#ifdef FIXN   /* enumerated form: body length and index fixed per job, bytes and capacity symbolic */
    n = FIXN; index = FIXI;
#endif
    setup(n);
    scpi_parameter_t param; param.type = SCPI_TOKEN_PROGRAM_EXPRESSION; param.ptr = text; param.len = n + 2;
    scpi_bool_t isRange = nondet_bool(); int32_t vf[4] = {701, 702, 703, 704}, vt[4] = {801, 802, 803, 804}; size_t dims = 99;
    scpi_expr_result_t res = SCPI_ExprChannelListEntry(&ctx, &param, index, &isRange, vf, vt, cap, &dims);
    const char *b = text + 1; int p = 0, i, r = 0, wf_prefix = 1; ent_t e; int has_at = (n > 0 && b[0] == '@');
    if (has_at) { p = 1; for (i = 0; i <= index; i++) { r = ref_entry(b, n, &p, 1, &e); if (r != 1) { wf_prefix = 0; break; } if (i < index) { if (p < n && b[p] == ',') p++; else { wf_prefix = 0; break; } } } } else wf_prefix = 0;
    int q = 1, wf = has_at && n > 1 /* "(@)" has no entry: not a well-formed channel list, no claim beyond the general ones */, count = 0; ent_t e2;
    if (has_at && n > 1) for (;;) { if (ref_entry(b, n, &q, 1, &e2) != 1) { wf = 0; break; } count++; if (q == n) break; if (b[q] == ',') { q++; continue; } wf = 0; break; }
    size_t k = nondet_size(); __CPROVER_assume(k < 4);
    if (wf && index < count) {
        __CPROVER_assert(res == SCPI_EXPR_OK, "C19: entry of a well-formed channel list is OK");
        __CPROVER_assert((isRange != 0) == (e.range != 0) && dims == (size_t) e.dims, "C19: range flag and dimension count as written");
        if (k < cap && k < (size_t) e.dims) __CPROVER_assert(vf[k] == e.from[k] && (!e.range || vt[k] == e.to[k]), "C19: channel values as written");
    }
    if (wf && index >= count) __CPROVER_assert(res == SCPI_EXPR_NO_MORE, "C19: NO_MORE at or beyond the number of entries");
    if (res == SCPI_EXPR_OK) __CPROVER_assert(wf_prefix, "C19: OK only if this entry and all before it are well formed");
    if (!wf && has_at == 0) __CPROVER_assert(res == SCPI_EXPR_ERROR, "C19: malformed channel list (no '@') reports ERROR");
    if (res == SCPI_EXPR_ERROR) __CPROVER_assert(SCPI_ErrorCount(&ctx) == 1 && queue[0].error_code == SCPI_ERROR_EXPRESSION_PARSING_ERROR, "C19: ERROR queues exactly one -170");
    if (k >= cap) __CPROVER_assert(vf[k] == 701 + (int) k && vt[k] == 801 + (int) k, "C19: nothing stored beyond the announced capacity");
    REACH("expr_channel");
}
