/* C17 bounded layer for binary array results: the real SCPI_ResultArray* -> produceResultArrayBinary ->
 * block header/data -> write callback chain for every element type, both formats, 0..NEL elements with
 * symbolic values; compiled for a little-endian and (goto-cc --big-endian) a big-endian host.
 * Expected from the statement: '#', digit count, decimal byte count, then the elements big-endian for
 * NORMAL and little-endian for SWAPPED; the block counts as exactly one result item. */
#include "ghost.c"
size_t gh_li;
#include "fifo.c"
#include "error.c"
#include "ieee488.c"
#include "utils.c"
#include "lexer.c"
#include "parser.c"
#ifndef NEL
#define NEL 3
#endif
#ifndef WHICH
#define WHICH 1
#define FMTSEL 1
#define COUNT 2
#endif
#define OUTMAX 64
static unsigned char out[OUTMAX]; static size_t outn; static int overflow;
static size_t cap_write(scpi_t *c, const char *d, size_t n) { size_t i; (void)c; for (i = 0; i < n; i++) { if (outn < OUTMAX) out[outn++] = (unsigned char) d[i]; else overflow = 1; } return n; }
static scpi_t ctx; static scpi_interface_t itf; static scpi_error_t queue[2];
void h_array_binary(void) {
    /* element type, format and count are fixed per job (-DWHICH -DFMTSEL -DCOUNT), element values symbolic */
    size_t count = COUNT; int which = WHICH;
    scpi_array_format_t fmt = FMTSEL ? SCPI_FORMAT_NORMAL : SCPI_FORMAT_SWAPPED;
    uint64_t v[NEL + 1]; size_t i; for (i = 0; i <= NEL; i++) v[i] = nondet_u64();
    uint8_t a8[NEL + 1]; uint16_t a16[NEL + 1]; uint32_t a32[NEL + 1]; uint64_t a64[NEL + 1];
    for (i = 0; i <= NEL; i++) { a8[i] = (uint8_t) v[i]; a16[i] = (uint16_t) v[i]; a32[i] = (uint32_t) v[i]; a64[i] = v[i]; }
    itf.write = cap_write; ctx.interface = &itf; SCPI_ErrorInit(&ctx, queue, 2);
    ctx.output_count = nondet_bool() ? 1 : 0; int had = ctx.output_count;
    size_t size = which == 0 ? 1 : which == 1 ? 2 : which == 2 ? 4 : 8, r;
    if (which == 0) r = SCPI_ResultArrayUInt8(&ctx, a8, count, fmt);
    else if (which == 1) r = SCPI_ResultArrayInt16(&ctx, (int16_t *) a16, count, fmt);
    else if (which == 2) r = SCPI_ResultArrayUInt32(&ctx, a32, count, fmt);
    else r = SCPI_ResultArrayInt64(&ctx, (int64_t *) a64, count, fmt);
    size_t bytes = count * size, p = 0;
    __CPROVER_assert(!overflow && r == outn, "C17: result counts the bytes written");
    if (had) { __CPROVER_assert(out[0] == ',', "C06: item separator"); p = 1; }
    __CPROVER_assert(out[p] == '#', "C17: block starts with '#'");
    size_t nd = bytes >= 10 ? 2 : 1;
    __CPROVER_assert(out[p + 1] == '0' + nd, "C17: digit giving the number of length digits");
    __CPROVER_assert(nd == 1 ? out[p + 2] == '0' + bytes : (out[p + 2] == '0' + bytes / 10 && out[p + 3] == '0' + bytes % 10), "C17: decimal byte count");
    __CPROVER_assert(outn == p + 2 + nd + bytes, "C17: exactly the announced number of bytes follows");
    size_t j = nondet_size(), b = nondet_size();
    if (j < count && b < size) {
        uint64_t e = which == 0 ? a8[j] : which == 1 ? a16[j] : which == 2 ? a32[j] : a64[j];
        unsigned char expect = fmt == SCPI_FORMAT_NORMAL ? (unsigned char)(e >> (8 * (size - 1 - b))) : (unsigned char)(e >> (8 * b));
        __CPROVER_assert(out[p + 2 + nd + j * size + b] == expect, "C17: elements big-endian for NORMAL, little-endian for SWAPPED, whatever the host byte order");
    }
    __CPROVER_assert(ctx.output_count == had + 1, "C17: the complete block is exactly one result item");
    __CPROVER_assert(ctx.arbitrary_remaining == 0 && SCPI_ErrorCount(&ctx) == 0, "C17: accounting closed, no error");
    REACH("array_binary");
}
/* byte-swap helpers: full-domain bit-vector identities */
void h_swap(void) {
    uint16_t a = nondet_u16(); uint32_t b = nondet_uint(); uint64_t c = nondet_u64();
    __CPROVER_assert(SCPI_Swap16(a) == (uint16_t)((a << 8) | (a >> 8)), "Swap16");
    __CPROVER_assert(SCPI_Swap32(b) == ((b << 24) | ((b & 0xff00u) << 8) | ((b >> 8) & 0xff00u) | (b >> 24)), "Swap32");
    __CPROVER_assert(SCPI_Swap64(SCPI_Swap64(c)) == c && (uint8_t) SCPI_Swap64(c) == (uint8_t)(c >> 56) && (uint8_t)(SCPI_Swap64(c) >> 8) == (uint8_t)(c >> 48)
        && (uint8_t)(SCPI_Swap64(c) >> 16) == (uint8_t)(c >> 40) && (uint8_t)(SCPI_Swap64(c) >> 24) == (uint8_t)(c >> 32), "Swap64");
    REACH("swap");
}
