#include "ghost.c"
#include "utils.c"
void h_scpiheap_init(void) { scpi_error_info_heap_t *h; char *d; size_t n; scpiheap_init(h, d, n); REACH("scpiheap_init"); }
void h_scpiheap_strndup(void) { scpi_error_info_heap_t *h; const char *s; size_t n; char *r = scpiheap_strndup(h, s, n); if (r) REACH("scpiheap_strndup:stored"); else REACH("scpiheap_strndup:refused"); }
