#include "ghost.c"
#include "utils.c"
void h_scpiheap_init(void) { scpi_error_info_heap_t *h; char *d; size_t n; scpiheap_init(h, d, n); REACH("scpiheap_init"); }
void h_scpiheap_strndup(void) { scpi_error_info_heap_t *h; const char *s; size_t n; char *r = scpiheap_strndup(h, s, n); if (r) REACH("scpiheap_strndup:stored"); else REACH("scpiheap_strndup:refused"); }
void h_scpiheap_get_parts(void) { scpi_error_info_heap_t *h; const char *s; size_t *l1, *l2; const char **s2; scpi_bool_t r = scpiheap_get_parts(h, s, l1, s2, l2);
    if (r) REACH("scpiheap_get_parts:some"); else REACH("scpiheap_get_parts:none"); }
void h_scpiheap_free(void) { scpi_error_info_heap_t *h; char *s; scpi_bool_t rb = nondet_bool(); scpiheap_free(h, s, rb); REACH("scpiheap_free"); }
