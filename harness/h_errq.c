/* C18 bounded stand-in: the real SCPI_ResultError (with the real strnpbrk, integer formatter and
 * error-description table) for every device-dependent text of up to TXT bytes over {a, "} and three
 * codes (with description, fallback description, longest short description), with the 255-character
 * limit lowered to LIM so that every boundary case is within reach.  The limit is a compile-time
 * constant that the code treats parametrically; lowering it is done here, in the harness, by
 * pre-including constants.h and redefining the macro - the repository is not touched. */
#include "scpi/constants.h"
#ifndef LIM
#define LIM 20
#endif
#undef SCPI_STD_ERROR_DESC_MAX_STRING_LENGTH
#define SCPI_STD_ERROR_DESC_MAX_STRING_LENGTH LIM
#include "ghost.c"
size_t gh_li;
#include "fifo.c"
#include "error.c"
#include "ieee488.c"
#include "utils.c"
#include "lexer.c"
#include "parser.c"
#ifndef TXT
#define TXT 14
#endif
#define OUTMAX 96
static char out[OUTMAX]; static size_t outn; static int overflow;
static size_t cap_write(scpi_t *c, const char *d, size_t n) { size_t i; (void)c; for (i = 0; i < n; i++) { if (outn < OUTMAX) out[outn++] = d[i]; else overflow = 1; } return n; }
static scpi_t ctx; static scpi_interface_t itf; static char text[TXT + 1];
void h_result_error(void) {
    int tl = nondet_int(), i; __CPROVER_assume(tl >= 0 && tl <= TXT);
    for (i = 0; i < tl; i++) text[i] = nondet_bool() ? '"' : 'a';
    text[tl] = 0;
#ifdef CODESEL
    int sel = CODESEL;
#else
    int sel = nondet_int(); __CPROVER_assume(sel >= 0 && sel <= 2);
#endif
    scpi_error_t e; e.error_code = sel == 0 ? 0 : sel == 1 ? 1234 : -350; e.device_dependent_info = nondet_bool() ? text : NULL;
    const char *desc = sel == 0 ? "No error" : sel == 1 ? "Unknown error" : "Queue overflow";
    itf.write = cap_write; ctx.interface = &itf; ctx.output_count = 0;
    size_t r = SCPI_ResultError(&ctx, &e);
    __CPROVER_assert(!overflow && r == outn, "C18: result counts the bytes written");
    /* <code>,"... */
    char num[8]; size_t nl = SCPI_Int32ToStr(e.error_code, num, sizeof num);
    for (i = 0; i < 6; i++) if ((size_t) i < nl) __CPROVER_assert(out[i] == num[i], "C18: response starts with the code");
    __CPROVER_assert(out[nl] == ',' && out[nl + 1] == '"' && outn >= nl + 3 && out[outn - 1] == '"', "C18: code, comma, quoted string");
    /* source = description [; text] */
    char src[48]; size_t sl = 0; for (i = 0; desc[i]; i++) src[sl++] = desc[i];
    if (e.device_dependent_info) { src[sl++] = ';'; for (i = 0; i < tl; i++) src[sl++] = text[i]; }
    /* unescape the quoted content and compare with the source prefix */
    size_t p = nl + 2, k = 0, esc = 0; int bad = 0;
    while (p < outn - 1) {
        char ch = out[p];
        if (ch == '"') { if (p + 1 < outn - 1 && out[p + 1] == '"') { p += 2; esc += 2; } else { bad = 1; break; } }
        else { p++; esc++; }
        if (k >= sl || src[k] != ch) { bad = 1; break; }
        k++;
    }
    __CPROVER_assert(!bad, "C18: every quote inside the string is doubled and the unescaped content is a prefix of description;text");
    __CPROVER_assert(esc <= LIM, "C18: the quoted content never exceeds the limit");
    /* cut as late as the limit allows: either everything was emitted or the next character does not fit */
    if (!bad && k < sl) __CPROVER_assert(esc + (src[k] == '"' ? 2 : 1) > LIM, "C18: cut as late as the limit allows");
    __CPROVER_assert(ctx.output_count >= 1, "C18: the response counts as output of the unit");
    REACH("result_error");
}
