#include "ghost.c"
size_t gh_li;
#ifdef H_UTILS
#include "utils.c"
void h_composeCompoundCommand(void) { const scpi_token_t *p; scpi_token_t *c; scpi_bool_t r = composeCompoundCommand(p, c); if (r) REACH("composeCompoundCommand:some"); else REACH("composeCompoundCommand:empty"); }
#else
#include "parser.c"
void h_findCommandHeader(void) { scpi_t *c; const char *h; int n; scpi_bool_t r = findCommandHeader(c, h, n); if (r) REACH("findCommandHeader:found"); else REACH("findCommandHeader:none"); }
void h_processCommand(void) { KEEP_CALLBACK_CONTRACTS; scpi_command_callback_t keep_h = handler_contract_full; (void) keep_h; scpi_t *c; scpi_bool_t r = processCommand(c); if (r) REACH("processCommand:ok"); else REACH("processCommand:failed"); }
void h_SCPI_Parse(void) { KEEP_CALLBACK_CONTRACTS; scpi_command_callback_t keep_h = handler_contract_full; (void) keep_h; scpi_t *c; char *d; int n; scpi_bool_t r = SCPI_Parse(c, d, n); if (r) REACH("SCPI_Parse:ok"); else REACH("SCPI_Parse:errors"); }
void h_SCPI_Input(void) { KEEP_CALLBACK_CONTRACTS; scpi_command_callback_t keep_h = handler_contract_full; (void) keep_h; scpi_t *c; const char *d; int n; scpi_bool_t r = SCPI_Input(c, d, n); if (n == 0) REACH("SCPI_Input:flush"); else if (r) REACH("SCPI_Input:ok"); else REACH("SCPI_Input:false"); }
#endif
