/* C13, second sentence (bounded): scpiParser_detectProgramMessageUnit accepts a unit as well formed exactly
 * when it is: white space*, a complete header, then optionally white space and comma-separated program
 * data, ended by ';', a line terminator or the end of the input - for every input of up to LEN bytes over
 * {a : ? * blank 1 , ; NL " x}.  ('#' is left out: block data is covered by lang.block.* and kf.c05_block_flush.) */
#include "ghost.c"
size_t gh_li;
#include "lexer.c"
#include "parser.c"
#ifndef LEN
#define LEN 7
#endif
static char buf[LEN + 2]; static int N;
#define B(i) (buf[(i)])
static int isal(char c) { return (c >= 'a' && c <= 'z') || (c >= 'A' && c <= 'Z'); }
static int isd(char c) { return c >= '0' && c <= '9'; }
static int r_ws(int p) { while (p < N && (B(p) == ' ' || B(p) == '\t')) p++; return p; }
static int r_mne(int p) { int q = p; if (q < N && isal(B(q))) { q++; while (q < N && (isal(B(q)) || isd(B(q)) || B(q) == '_')) q++; } return q; }
/* complete header starting at p: returns end or -1 */
static int r_header(int p) {
    int q;
    if (p < N && B(p) == '*') { q = r_mne(p + 1); if (q == p + 1) return -1; }
    else { q = p; if (q < N && B(q) == ':') q++; int e = r_mne(q); if (e == q) return -1; q = e;
        for (;;) { if (q < N && B(q) == ':') { int e2 = r_mne(q + 1); if (e2 > q + 1) { q = e2; continue; } return -1; /* dangling colon */ } break; } }
    if (q < N && B(q) == '?') q++;
    return q;
}
/* one data item starting at p (no surrounding white space): end or -1.  alphabet has no '#', '(' or quote other than '"' */
static int r_data(int p) {
    if (p >= N) return -1;
    if (isal(B(p))) return r_mne(p);
    if (B(p) == '"') { int q = p + 1; for (;;) { if (q >= N) return -1; if (B(q) == '"') { if (q + 1 < N && B(q + 1) == '"') { q += 2; continue; } return q + 1; } if (B(q) < 0) return -1; q++; } }
    if (isd(B(p))) { int q = p; while (q < N && isd(B(q))) q++;
        /* optional suffix: white space* then letters (relaxed suffix syntax on this alphabet) */
        int w = r_ws(q); if (w < N && isal(B(w))) { int e = w; while (e < N && isal(B(e))) e++; if (e < N && isd(B(e))) e++; return e; }
        return q; }
    return -1;
}
void h_unit(void) {
    static const char A[] = {'a', ':', '?', '*', ' ', '1', ',', ';', '\n', '"', 'x'};
    int i; N = nondet_int(); __CPROVER_assume(N >= 1 && N <= LEN);
    for (i = 0; i < LEN + 1; i++) { unsigned k = nondet_u8(); __CPROVER_assume(k < sizeof A); buf[i] = A[k]; }
    /* reference */
    int wf = 0, end = 0, term = 0, hs = r_ws(0), he = r_header(hs), ds = -1, de = -1, np = 0;
    if (he > hs) {
        int p = he, w = r_ws(p);
        if (w > p && (w == N || B(w) == ';' || B(w) == '\n')) p = w;   /* trailing white space, no data */
        else if (w > p) {       /* white space after the header, then a data list */
            int q = w, ok = 1; ds = w;
            for (;;) { int e = r_data(q); if (e < 0) { ok = 0; break; } np++; q = r_ws(e); if (q < N && B(q) == ',') { q = r_ws(q + 1); continue; } break; }
            if (ok) { de = q; p = q; } else p = -1;
        }
        if (p >= 0) {
            if (p == N) { wf = 1; end = p; term = 0; }
            else if (B(p) == ';') { wf = 1; end = p + 1; term = 2; }
            else if (B(p) == '\n') { wf = 1; end = p + 1; term = 1; }
        }
    }
    scpi_parser_state_t st; int r = scpiParser_detectProgramMessageUnit(&st, buf, N);
    int complete = st.programHeader.type == SCPI_TOKEN_COMMON_PROGRAM_HEADER || st.programHeader.type == SCPI_TOKEN_COMMON_QUERY_PROGRAM_HEADER
        || st.programHeader.type == SCPI_TOKEN_COMPOUND_PROGRAM_HEADER || st.programHeader.type == SCPI_TOKEN_COMPOUND_QUERY_PROGRAM_HEADER;
    int accepted = complete && st.programData.type != SCPI_TOKEN_INVALID /* list ending with a separator: answered with -101 by SCPI_Parse */ && (st.termination != SCPI_MESSAGE_TERMINATION_NONE || r == N);
    /* header followed directly by the end of input is reported INCOMPLETE by the lexer (it cannot know that the header is over);
       that case is excluded from the equivalence and only required not to be reported as a syntax error */
    int at_end_after_header = (he > hs && he == N);
    if (!at_end_after_header) __CPROVER_assert(accepted == wf, "C13: a unit is accepted as well formed exactly when it is header [ws data-list] (; | NL | end)");
    if (wf && !at_end_after_header) {
        __CPROVER_assert(r == end, "C13: the unit extends to and includes its terminator");
        __CPROVER_assert(st.termination == (term == 1 ? SCPI_MESSAGE_TERMINATION_NL : term == 2 ? SCPI_MESSAGE_TERMINATION_SEMICOLON : SCPI_MESSAGE_TERMINATION_NONE), "C13/C08: termination kind");
        __CPROVER_assert(st.programHeader.ptr == buf + hs && st.programHeader.len == he - hs, "C13: header extent");
        if (ds >= 0 && de > ds) { __CPROVER_assert(st.programData.ptr == buf + ds && st.programData.len == de - ds, "C13/C05: program data extent covers the whole list"); __CPROVER_assert(st.numberOfParameters == np, "C05: number of parameters"); }
        else __CPROVER_assert(st.programData.len == 0, "C13: no program data");
    }
    __CPROVER_assert(r >= 1 && r <= N, "C01: progress - a non-empty input always loses at least one byte");
    REACH("unit");
}
