/* Small bounded jobs around the known findings: each has a main form (the listed input shape excluded by
 * assumption, must be green) and a confirmation form (-DCONFIRM: shape assumed, shows the failing
 * obligation -> KNOWN-FINDING line). */
#include "ghost.c"
size_t gh_li;
#include "../stubs/libc_impl.c"
#include "fifo.c"
#include "error.c"
#include "ieee488.c"
#include "minimal.c"
#include "utils.c"
#include "lexer.c"
#include "parser.c"
static size_t nowrite(scpi_t *c, const char *d, size_t n) { (void)c; (void)d; return n; }
static scpi_t ctx; static scpi_interface_t itf; static scpi_error_t queue[4];
#define NTOK 5
/* C04: a decimal literal is converted as a whole (the conversion consumes exactly the literal) */
void h_kf_c04_literal(void) {
    static const char A[] = {'1', '2', '.', 'E', '+', ' '};
    char txt[NTOK + 2]; int n = nondet_int(), i, blank = 0; __CPROVER_assume(n >= 1 && n <= NTOK);
    for (i = 0; i < NTOK; i++) { unsigned k = nondet_u8() % sizeof A; txt[i] = i < n ? A[k] : 0; if (i < n && txt[i] == ' ') blank = 1; }
    txt[n] = 0; txt[n + 1] = 0;
    lex_state_t s; scpi_token_t t; s.buffer = s.pos = txt; s.len = n;
    int r = scpiLex_DecimalNumericProgramData(&s, &t);
    __CPROVER_assume(r == n);   /* the whole text is one decimal literal for the lexer */
#ifdef CONFIRM
    __CPROVER_assume(blank);
#else
    __CPROVER_assume(!blank);   /* known finding C04-ws-exponent: white space before/after the 'E' */
#endif
    double v; size_t used = strToDouble(t.ptr, &v);
    __CPROVER_assert(used == (size_t) t.len, "C04: the conversion consumes the whole literal (otherwise the value is that of a prefix)");
    REACH("kf_c04_literal");
}
/* C05: a typed integer reader never fails without queuing an error (bounded: parameter texts <= 4 bytes) */
void h_kf_c05_reader(void) {
    static const char A[] = {'1', '.', '-', 'A', ' ', ','};
    static char txt[8]; int n = nondet_int(), i; __CPROVER_assume(n >= 0 && n <= 4);
    for (i = 0; i < 4; i++) { unsigned k = nondet_u8() % sizeof A; txt[i] = i < n ? A[k] : 0; }
    txt[n] = 0;
    int b0 = 0; while (b0 < n && txt[b0] == ' ') b0++;   /* leading white space belongs to the item */
    int dot_first = (b0 < n && (txt[b0] == '.' || ((txt[b0] == '-') && b0 + 1 < n && txt[b0 + 1] == '.')));
#ifdef CONFIRM
    __CPROVER_assume(dot_first);
#else
    __CPROVER_assume(!dot_first);   /* known finding C05-int-reader-dot: decimal literal that starts with '.' */
#endif
    itf.write = nowrite; ctx.interface = &itf; SCPI_ErrorInit(&ctx, queue, 4);
    ctx.param_list.lex_state.buffer = ctx.param_list.lex_state.pos = txt; ctx.param_list.lex_state.len = n; ctx.input_count = 0; ctx.cmd_error = FALSE;
    int32_t v = 0; scpi_bool_t mandatory = nondet_bool();
    scpi_bool_t ok = SCPI_ParamInt32(&ctx, &v, mandatory);
    __CPROVER_assert(ok || SCPI_ErrorCount(&ctx) >= 1 || (!mandatory && n == 0), "C05: a typed reader reports failure only with an error queued (or for an absent optional parameter)");
    __CPROVER_assert(!ok || SCPI_ErrorCount(&ctx) == 0, "C05: success queues nothing");
    REACH("kf_c05_reader");
}
/* C05 / C08 at message level: fixed streams for two known findings */
static int calls, nerrs;
static scpi_result_t hI(scpi_t *c) { calls++; SCPI_ResultInt32(c, 5); return SCPI_RES_OK; }
static scpi_result_t hS(scpi_t *c) { int32_t v; calls++; if (!SCPI_ParamInt32(c, &v, TRUE)) return SCPI_RES_ERR; return SCPI_RES_OK; }
static int ecb(scpi_t *c, int_fast16_t e) { (void)c; if (e) nerrs++; return 0; }
static const scpi_command_t CMDS[] = { {"*IDN?", hI, 0}, {"TEST:SET", hS, 0}, SCPI_CMD_LIST_END };
static char ib[48];
static void init(void) { static scpi_interface_t it2 = { ecb, nowrite, NULL, NULL, NULL }; SCPI_Init(&ctx, CMDS, &it2, NULL, "a", "b", "c", "d", ib, sizeof ib, queue, 4); calls = 0; nerrs = 0; }
void h_kf_c05_block_flush(void) {
    /* text after the header that is not well-formed program data must not reach the handler silently */
    static const char S[] = "*IDN? #15ab"; init();
    SCPI_Input(&ctx, S, sizeof S - 1); SCPI_Input(&ctx, NULL, 0);
    __CPROVER_assert(calls == 0 || nerrs >= 1, "C05: a unit with malformed program data queues a command error");
    REACH("kf_c05_block_flush");
}
void h_kf_c08_quoted_newline(void) {
    static const char S[] = "TEST:SET \"a\nb\"\n"; int cut = 12;   /* the split right after the newline inside the quotes (one concrete split is enough to confirm) */
    init(); SCPI_Input(&ctx, S, sizeof S - 1); int c1 = calls, e1 = nerrs;
    init(); SCPI_Input(&ctx, S, cut); SCPI_Input(&ctx, S + cut, (int) sizeof S - 1 - cut);
    __CPROVER_assert(calls == c1 && nerrs == e1, "C08: same handler invocations and errors for every split point");
    REACH("kf_c08_quoted_newline");
}
