#include "ghost.c"
#include "ieee488.c"
void h_SCPI_RegSet(void) {
    KEEP_CALLBACK_CONTRACTS;
    scpi_t *context; scpi_reg_name_t name; scpi_reg_val_t val;
    SCPI_RegSet(context, name, val);
    if (name == SCPI_REG_STB) REACH("SCPI_RegSet:stb"); else if (name < SCPI_REG_COUNT) REACH("SCPI_RegSet:reg"); else REACH("SCPI_RegSet:none");
}
void h_SCPI_RegSetBits(void) {
    KEEP_CALLBACK_CONTRACTS;
    scpi_t *context; scpi_reg_name_t name; scpi_reg_val_t val;
    SCPI_RegSetBits(context, name, val);
    REACH("SCPI_RegSetBits");
}
void h_SCPI_RegClearBits(void) {
    KEEP_CALLBACK_CONTRACTS;
    scpi_t *context; scpi_reg_name_t name; scpi_reg_val_t val;
    SCPI_RegClearBits(context, name, val);
    REACH("SCPI_RegClearBits");
}
void h_SCPI_RegGet(void) {
    scpi_t *context; scpi_reg_name_t name;
    SCPI_RegGet(context, name);
    if (context) REACH("SCPI_RegGet:ctx"); else REACH("SCPI_RegGet:null");
}
/* memory safety and termination for an arbitrary (not necessarily coherent) register file and
 * a NULL context / NULL callbacks: no contract is enforced, only CBMC's standard checks */
scpi_result_t any_control(scpi_t *c, scpi_ctrl_name_t ctrl, scpi_reg_val_t v) { (void)c; (void)ctrl; (void)v; return SCPI_RES_OK; }
void h_SCPI_RegSet_safety(void) {
    scpi_t ctx; scpi_interface_t itf; scpi_reg_name_t name; scpi_reg_val_t val; int i;
    for (i = 0; i < SCPI_REG_COUNT; i++) ctx.registers[i] = nondet_u16();
    itf.control = nondet_bool() ? any_control : NULL;
    ctx.interface = nondet_bool() ? &itf : NULL;
    __CPROVER_assume(ENUM_OK(name));
    SCPI_RegSet(nondet_bool() ? &ctx : NULL, name, val);
    REACH("SCPI_RegSet_safety");
}
