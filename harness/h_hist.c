/* C10 / C20 bounded history layer: the real error queue (error.c, fifo.c, minimal.c SYST:ERR?, and in the static-heap
 * build utils.c's ring heap) driven by a sequence of operations and compared with a reference FIFO that owns copies
 * of the texts.  Operations: P push with a 1-character text, L push with a 5-character text, N push without text,
 * O pop via SYST:ERR? (captured output), C clear, K count.  The sequence is fixed per job (-DOPS="...") or, without
 * OPS, NOPS operations chosen symbolically.  malloc build: CBMC's allocator model (malloc may fail at every call;
 * double free / use after free are checked, --memory-leak-check after the final drain). */
#include "ghost.c"
size_t gh_li;
#include "../stubs/libc_impl.c"
#include "fifo.c"
#include "error.c"
#include "ieee488.c"
#include "minimal.c"
#include "utils.c"
#include "lexer.c"
#include "parser.c"
#ifndef CAP
#define CAP 2
#endif
#ifndef NOPS
#define NOPS 4
#endif
#ifndef HEAPSZ
#define HEAPSZ 8
#endif
#define OUTMAX 64
static char out[OUTMAX]; static size_t outn;
static size_t cap_write(scpi_t *c, const char *d, size_t n) { size_t i; (void)c; for (i = 0; i < n; i++) if (outn < OUTMAX) out[outn++] = d[i]; return n; }
static scpi_t ctx; static scpi_interface_t itf; static scpi_error_t queue[CAP]; static char ib[8];
static const scpi_command_t CMDS[] = { SCPI_CMD_LIST_END };
#if USE_DEVICE_DEPENDENT_ERROR_INFORMATION && !USE_MEMORY_ALLOCATION_FREE
static char heapmem[HEAPSZ + 2];
#endif
/* reference queue: code, text length (-1 = none), text */
typedef struct { int code; int tl; char t[6]; } ent_t;
static ent_t M[CAP]; static int mn;
static int seq;   /* running counter: makes every pushed text and code distinct */
static void do_push(int tlen) {
    char text[6]; int i, code = -200 - seq; for (i = 0; i < tlen; i++) text[i] = (char)('a' + (seq + i) % 20); seq++;
    SCPI_ErrorPushEx(&ctx, (int16_t) code, tlen > 0 ? text : NULL, (size_t)(tlen > 0 ? tlen : 0));
    if (mn < CAP) { M[mn].code = code; M[mn].tl = tlen > 0 ? tlen : -1; for (i = 0; i < tlen; i++) M[mn].t[i] = text[i]; mn++; }
    else { M[CAP - 1].code = SCPI_ERROR_QUEUE_OVERFLOW; M[CAP - 1].tl = -1; }
}
static void do_pop(void) {
    int i; outn = 0; ctx.output_count = 0;
    SCPI_SystemErrorNextQ(&ctx);
    /* expected response */
    int code = mn > 0 ? M[0].code : 0; char num[8]; size_t nl = SCPI_Int32ToStr(code, num, sizeof num);
    for (i = 0; i < 6; i++) if ((size_t) i < nl) __CPROVER_assert(out[i] == num[i], "C10: codes come back in push order; -350 replaces the newest on overflow; 0 when empty");
    __CPROVER_assert(out[nl] == ',' && out[nl + 1] == '"' && out[outn - 1] == '"', "C18: code, comma, quoted string");
    if (mn > 0) {
        /* the device-dependent text, if one is reported, is exactly the one pushed with this error */
        int semi = -1; for (i = (int) nl + 2; i < (int) outn - 1; i++) if (out[i] == ';') { semi = i; break; }
        if (semi >= 0) {
            __CPROVER_assert(M[0].tl >= 0, "C10/C20: no text is reported for an error pushed without one (never a foreign text)");
            __CPROVER_assert((int) outn - 1 - (semi + 1) == M[0].tl, "C10/C20: text comes back with its full length (never truncated or merged)");
            int k = nondet_int(); __CPROVER_assume(k >= 0 && k < 5);
            if (k < M[0].tl) __CPROVER_assert(out[semi + 1 + k] == M[0].t[k], "C10/C20: text comes back unmodified");
        }
#if USE_DEVICE_DEPENDENT_ERROR_INFORMATION && USE_MEMORY_ALLOCATION_FREE
        else __CPROVER_assert(M[0].tl < 0 || 1, "malloc build: a text may be absent only if the allocation failed");
#endif
        for (i = 1; i < CAP; i++) if (i < mn) M[i - 1] = M[i];
        mn--;
    }
}
static void step(char op) {
    if (op == 'P') do_push(1); else if (op == 'L') do_push(5); else if (op == 'N') do_push(0);
    else if (op == 'O') do_pop(); else if (op == 'C') { SCPI_ErrorClear(&ctx); mn = 0; }
    else if (op == 'K') __CPROVER_assert(SCPI_ErrorCount(&ctx) == mn, "C10: the count is the model's");
    __CPROVER_assert(SCPI_ErrorCount(&ctx) == mn, "C10: the count is the model's");
    __CPROVER_assert(((ctx.registers[SCPI_REG_STB] & STB_QMA) != 0) == (mn > 0), "C11: error-available bit iff the queue is non-empty");
}
void h_history(void) {
    int i; itf.write = cap_write;
    SCPI_Init(&ctx, CMDS, &itf, NULL, "a", "b", "c", "d", ib, sizeof ib, queue, CAP);
#if USE_DEVICE_DEPENDENT_ERROR_INFORMATION && !USE_MEMORY_ALLOCATION_FREE
    heapmem[0] = 0x55; heapmem[HEAPSZ + 1] = 0x55; SCPI_InitHeap(&ctx, heapmem + 1, HEAPSZ);
#endif
#ifdef OPS
    static const char ops[] = OPS; for (i = 0; i < (int) sizeof ops - 1; i++) step(ops[i]);
#else
    static const char menu[] = {'P', 'L', 'N', 'O', 'C'};
    for (i = 0; i < NOPS; i++) { unsigned k = nondet_u8(); __CPROVER_assume(k < sizeof menu); step(menu[k]); }
#endif
    /* drain: everything that is still queued comes back, then the queue is empty */
    for (i = 0; i < CAP; i++) if (mn > 0) do_pop();
    __CPROVER_assert(SCPI_ErrorCount(&ctx) == 0 && mn == 0, "C10: drained");
#if USE_DEVICE_DEPENDENT_ERROR_INFORMATION && !USE_MEMORY_ALLOCATION_FREE
    __CPROVER_assert(heapmem[0] == 0x55 && heapmem[HEAPSZ + 1] == 0x55, "C20: nothing outside the supplied heap is written");
    __CPROVER_assert(ctx.error_info_heap.count == HEAPSZ && ctx.error_info_heap.wr == 0, "C20: heap space is completely reusable once the queue is empty");
    { int k = nondet_int(); __CPROVER_assume(k >= 0 && k < HEAPSZ); __CPROVER_assert(heapmem[1 + k] == 0, "C20: released heap bytes are cleared"); }
#endif
    REACH("history");
}
