#include "ghost.c"
#include "ieee488.c"
void h_SCPI_RegSet(void) {
    KEEP_CALLBACK_CONTRACTS;
    scpi_t *context; scpi_reg_name_t name; scpi_reg_val_t val;
    SCPI_RegSet(context, name, val);
    REACH("SCPI_RegSet");
}
