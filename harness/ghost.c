/* ghost state definitions (one per harness translation unit) */
size_t gh_out_len; size_t gh_out_calls; size_t gh_watch; char gh_watch_val; char gh_out_last; char gh_out_first;
const char *gh_last_data; size_t gh_last_len;
int gh_flushes; int gh_err_n; int gh_err_last; int gh_srq_n; unsigned gh_srq_val; int gh_reset_n;
size_t gh_w; size_t gh_nul; int gh_free_n; void *gh_free_last; void *gh_free_prev; size_t gh_dup_len;
unsigned short gh_k;
int gh_case;
int gh_trunc; size_t gh_fmt_need;
int gh_conv_zero;
