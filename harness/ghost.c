/* ghost state definitions (one per harness translation unit) */
size_t gh_out_len; size_t gh_out_calls; size_t gh_watch; char gh_watch_val; char gh_out_last; char gh_out_first;
const char *gh_last_data; size_t gh_last_len;
int gh_flushes; int gh_err_n; int gh_err_last; int gh_srq_n; unsigned gh_srq_val; int gh_reset_n;
