#include <stddef.h>
#include "scpi/config.h"
#include "scpi/types.h"
/* ghost state definitions (one per harness translation unit) */
size_t gh_out_len; size_t gh_out_calls; size_t gh_watch; char gh_watch_val; char gh_out_last; char gh_out_first;
const char *gh_last_data; size_t gh_last_len;
unsigned gh_flushes; unsigned gh_err_n; int gh_err_last; unsigned gh_srq_n; unsigned gh_srq_val; unsigned gh_reset_n;
size_t gh_w; size_t gh_nul; const char *gh_nulp; size_t gh_fill; const char *gh_wp; unsigned gh_free_n; void *gh_free_last; void *gh_free_prev; size_t gh_dup_len;
unsigned short gh_k;
int gh_case;
int gh_trunc; size_t gh_fmt_need;
int gh_conv_zero;
unsigned gh_handler_calls; const struct _scpi_command_t *gh_h_cmd; const char *gh_h_raw; size_t gh_h_rawlen; char *gh_h_pbuf; int gh_h_plen; size_t gh_j; size_t gh_ncmd;
char *gh_buf; size_t gh_buflen;
scpi_result_t gh_h_ret; scpi_bool_t gh_h_cmderr; scpi_bool_t gh_h_unread; int gh_h_items;
unsigned gh_parse_calls;

unsigned gh_cv_calls; int gh_cv_kind, gh_cv_base; unsigned long long gh_cv_bits; size_t gh_cv_used; float gh_cv_f; double gh_cv_d;
