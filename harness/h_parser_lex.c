#include "ghost.c"
size_t gh_li;
#include "parser.c"
void h_scpiParser_parseProgramData(void) { lex_state_t *s; scpi_token_t *t; scpiParser_parseProgramData(s, t); REACH("scpiParser_parseProgramData"); }
void h_scpiParser_parseAllProgramData(void) { lex_state_t *s; scpi_token_t *t; int *n; int r = scpiParser_parseAllProgramData(s, t, n);
    if (r > 0) REACH("scpiParser_parseAllProgramData:list"); else REACH("scpiParser_parseAllProgramData:none"); }
void h_scpiParser_detectProgramMessageUnit(void) { scpi_parser_state_t *st; char *b; int len; int r = scpiParser_detectProgramMessageUnit(st, b, len);
    if (r < len) REACH("scpiParser_detectProgramMessageUnit:more"); else REACH("scpiParser_detectProgramMessageUnit:all"); }
