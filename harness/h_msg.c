/* Message-level bounded layer (C02, C05, C06, C08, C09): the whole real library (input buffer, unit
 * detection, header composition, first-match lookup, handlers calling the real parameter/result API,
 * error queue, status registers) driven by symbolic messages assembled from a menu of unit texts, and
 * compared with the trace the statements prescribe.  Bounded stand-in for the SCPI_Parse / SCPI_Input
 * loop-contract jobs. */
#include "ghost.c"
size_t gh_li;
#include "../stubs/libc_impl.c"
#include "fifo.c"
#include "error.c"
#include "ieee488.c"
#include "minimal.c"
#include "utils.c"
#include "lexer.c"
#include "parser.c"
#ifndef NUNITS
#define NUNITS 3
#endif
#define TRMAX 8
#define OUTMAX 40
typedef struct { int n; int h[TRMAX]; int v[TRMAX]; int outn; char out[OUTMAX]; int errn; int err[TRMAX]; int ovf; int rest; } trace_t;
static trace_t *cur;
static void rec(int h, int v) { if (cur->n < TRMAX) { cur->h[cur->n] = h; cur->v[cur->n] = v; cur->n++; } else cur->ovf = 1; }
static size_t w_(scpi_t *c, const char *d, size_t n) { size_t i; (void)c; for (i = 0; i < n; i++) { if (cur->outn < OUTMAX) cur->out[cur->outn++] = d[i]; else cur->ovf = 1; } return n; }
static int e_(scpi_t *c, int_fast16_t e) { (void)c; if (e != 0) { if (cur->errn < TRMAX) cur->err[cur->errn++] = (int) e; else cur->ovf = 1; } return 0; }
static scpi_result_t hQ(scpi_t *c) { rec(1, 0); SCPI_ResultInt32(c, 7); return SCPI_RES_OK; }           /* TEST:VAL?  */
static scpi_result_t hS(scpi_t *c) { int32_t v = -1; if (!SCPI_ParamInt32(c, &v, TRUE)) { rec(2, -1); return SCPI_RES_ERR; } rec(2, v); return SCPI_RES_OK; } /* TEST:SET */
static scpi_result_t hT(scpi_t *c) { rec(3, 0); SCPI_ResultInt32(c, 1); SCPI_ResultInt32(c, 2); return SCPI_RES_OK; } /* TEST:TWO? two items */
static scpi_result_t hO(scpi_t *c) { rec(4, 0); SCPI_ResultInt32(c, 9); return SCPI_RES_OK; }           /* OTHer:VAL? */
static scpi_result_t hI(scpi_t *c) { rec(5, 0); SCPI_ResultInt32(c, 5); return SCPI_RES_OK; }           /* *IDN?      */
static scpi_result_t hP(scpi_t *c) { int32_t v = -2; if (!SCPI_ParamInt32(c, &v, FALSE)) v = -2; rec(6, v); return SCPI_RES_OK; }   /* TEST:OPT [n] - optional parameter */
static const scpi_command_t CMDS[] = {
    {"*IDN?", hI, 0}, {"TEST:VALue?", hQ, 0}, {"TEST:SET", hS, 0}, {"TEST:TWO?", hT, 0}, {"OTHer:VALue?", hO, 0}, {"VALue?", hO, 0}, {"TEST:OPT", hP, 0}, SCPI_CMD_LIST_END };
/* menu of unit texts: text, handler expected when the unit is written at root (0 = undefined header -> -113),
 * 'rel' = expected handler when the preceding unit's path is TEST: / OTHer: */
typedef struct { const char *txt; int root; int relT; int relO; int val; int errs; int path; } menu_t; /* path: 0 none/keeps, 1 TEST:, 2 OTHer:, 3 resets (common), 4 root-only */
static const menu_t MENU[] = {
    {"TEST:VAL?", 1, 1, 1, 0, 0, 1},     /* absolute spelling works after any path?  no: relative to the path -> TEST:TEST:VAL? undefined */
    {":TEST:VAL?", 1, 1, 1, 0, 0, 1},
    {"VAL?", 4, 1, 4, 0, 0, 0},          /* root: VALue? entry; after TEST: -> TEST:VALue?; after OTHer: -> OTHer:VALue? */
    {"*IDN?", 5, 5, 5, 0, 0, 3},
    {"TEST:SET 5", 2, 2, 2, 5, 0, 1},
    {":OTH:VAL?", 4, 4, 4, 0, 0, 2},
    {"TEST:TWO?", 3, 3, 3, 0, 0, 1},
    {"BAD:CMD", 0, 0, 0, 0, -113, 4},
    {"TEST:SET 5,", 0, 0, 0, 0, -101, 0}, /* list ending with a separator: command error, no handler, the path is left alone */
    {":TEST:OPT", 6, 6, 6, -2, 0, 1},      /* optional parameter absent: the handler must see NO parameter, whatever an earlier unit left unread (C09) */
    {":TEST:OPT 3", 6, 6, 6, 3, 0, 1},
    {":TEST:VAL? 4", 1, 1, 1, 0, -108, 1}, /* surplus parameter: the handler runs, its response is written, then -108 */
};
#define NMENU (sizeof MENU / sizeof MENU[0])
static scpi_interface_t itf = { e_, w_, NULL, NULL, NULL };
typedef struct { scpi_t ctx; scpi_error_t q[TRMAX]; char ib[64]; } inst_t;
static void init(inst_t *x) { SCPI_Init(&x->ctx, CMDS, &itf, NULL, "a", "b", "c", "d", x->ib, sizeof x->ib, x->q, TRMAX); }
static int build(char *dst, int cap, const int *sel, int nu) {
    int n = 0, u, i;
    for (u = 0; u < nu; u++) { const char *t = MENU[sel[u]].txt; if (u) dst[n++] = ';'; for (i = 0; t[i] && n < cap - 3; i++) dst[n++] = t[i]; }
    dst[n++] = '\n'; dst[n] = 0; return n;
}
static int same(const trace_t *a, const trace_t *b) {
    int i; if (a->n != b->n || a->outn != b->outn || a->errn != b->errn || a->rest != b->rest) return 0;
    for (i = 0; i < TRMAX; i++) { if (i < a->n && (a->h[i] != b->h[i] || a->v[i] != b->v[i])) return 0; if (i < a->errn && a->err[i] != b->err[i]) return 0; }
    for (i = 0; i < OUTMAX; i++) if (i < a->outn && a->out[i] != b->out[i]) return 0;
    return 1;
}
/* unit selections are fixed per job (-DSELS=a,b,c -DNSEL=n, enumerated by jobs/msg.py); values inside the
 * handlers, split points and everything the library computes stay symbolic */
#ifndef SELS
#define SELS 0,2
#define NSEL 2
#endif
static const int SELV[] = { SELS };
static int pickn;
static int pick(void) { int v = SELV[pickn % (int)(sizeof SELV / sizeof SELV[0])]; pickn++; return v; }

/* C02 + C06: dispatch and framing of one message against the statement */
void h_msg_dispatch(void) {
    static inst_t X; static trace_t T; char msg[64]; int sel[NUNITS], nu = NSEL, u;
    for (u = 0; u < NUNITS; u++) sel[u] = pick();
    init(&X); cur = &T; int len = build(msg, sizeof msg, sel, nu);
    SCPI_Input(&X.ctx, msg, len);
    /* expected trace */
    int path = 0, k = 0, ek = 0, responded = 0; char exp[OUTMAX]; int en = 0;
    for (u = 0; u < nu; u++) {
        const menu_t *m = &MENU[sel[u]]; int absolute = (m->txt[0] == ':' || m->txt[0] == '*');
        if (m->errs == -101) { __CPROVER_assert(ek < T.errn && T.err[ek] == -101, "C05: a malformed parameter list queues a command error and reaches no handler"); ek++; continue; }
        int h = absolute || path == 0 ? m->root : path == 1 ? m->relT : path == 2 ? m->relO : 0;
        /* a compound spelling written relative to a non-empty path names PATH:spelling, which this table does not define */
        if (!absolute && path != 0 && m->path != 0) h = 0;
        if (h == 0) { __CPROVER_assert(ek < T.errn && T.err[ek] == -113, "C02: undefined effective header queues -113"); ek++; }
        else {
            __CPROVER_assert(k < T.n && T.h[k] == h && ((h != 2 && h != 6) || T.v[k] == m->val), "C02: handler of the first entry matching the effective header runs, in message order, with its parameter");
            k++;
            int items = (h == 3) ? 2 : ((h == 2 || h == 6) ? 0 : 1), it; char dig = h == 1 ? '7' : h == 4 ? '9' : h == 5 ? '5' : 0;
            if (items) { if (responded) exp[en++] = ';'; if (h == 3) { exp[en++] = '1'; exp[en++] = ','; exp[en++] = '2'; } else exp[en++] = dig; responded = 1; }
            (void) it;
            if (m->errs == -108) { __CPROVER_assert(ek < T.errn && T.err[ek] == -108, "C05: parameters left unread by a handler that otherwise succeeded queue -108"); ek++; }
        }
        /* path for the next unit: everything up to the last colon of this unit's effective header */
        if (m->txt[0] == '*') path = 0; else if (absolute || path == 0 || h == 0) path = (m->path == 1 || m->path == 2) ? m->path : (m->path == 4 ? 4 : path);
        if (path == 4) path = 9;   /* BAD: - a path no menu entry continues */
    }
    __CPROVER_assert(T.n == k && T.errn == ek, "C02/C05: exactly one handler invocation or one -113 per unit, and no error other than the ones the statement names");
    if (responded) { exp[en++] = '\r'; exp[en++] = '\n'; }
    __CPROVER_assert(T.outn == en, "C06: response units separated by ';', items by ',', one terminator iff something responded");
    int i = nondet_int(); __CPROVER_assume(i >= 0 && i < OUTMAX);
    __CPROVER_assert(i >= en || T.out[i] == exp[i], "C06: output bytes are exactly the framed responses");
    __CPROVER_assert(!T.ovf, "trace buffers large enough");
    REACH("msg_dispatch");
}

/* C08: any split into two input calls behaves like one call (two messages in the stream, so that
 * an executed message still has bytes behind it in the buffer) */
void h_msg_chunking(void) {
    static inst_t A, B; static trace_t TA, TB; char msg[64]; /* <= 64: CBMC keeps arrays up to 64 elements field-sensitive, so a concrete stream stays concrete */ int sel[NUNITS], nu = NSEL, u;
    for (u = 0; u < NUNITS; u++) sel[u] = pick();
    int len = build(msg, 44, sel, nu); int s2 = pick(); len += build(msg + len, 20, &s2, 1);
    /* every split point, one after the other (the stream is fixed per job, so each pass is concrete for CBMC) */
    int cut;
    init(&A); cur = &TA; SCPI_Input(&A.ctx, msg, len); TA.rest = (int) A.ctx.buffer.position;
    for (cut = 1; cut < len; cut++) {
        init(&B); TB.n = 0; TB.outn = 0; TB.errn = 0; TB.ovf = 0;
        cur = &TB; SCPI_Input(&B.ctx, msg, cut); SCPI_Input(&B.ctx, msg + cut, len - cut); TB.rest = (int) B.ctx.buffer.position;
        __CPROVER_assert(same(&TA, &TB), "C08: same handler invocations, parameters, output, errors and remainder for every split point");
    }
    __CPROVER_assert(!TA.ovf && !TB.ovf, "trace buffers large enough");
    REACH("msg_chunking");
}

/* C08, cheap form: the stream (this message + one more) in ONE call versus line by line (split exactly at the
 * message boundary).  Concrete split, so it costs seconds; it is the case in which an executed message still has
 * bytes behind it in the buffer. */
void h_msg_twolines(void) {
    static inst_t A, B; static trace_t TA, TB; char msg[64]; /* <= 64: CBMC keeps arrays up to 64 elements field-sensitive, so a concrete stream stays concrete */ int sel[NUNITS], nu = NSEL, u;
    for (u = 0; u < NUNITS; u++) sel[u] = pick();
    int l1 = build(msg, 44, sel, nu); int s2 = pick(); int len = l1 + build(msg + l1, 20, &s2, 1);
    init(&A); init(&B);
    cur = &TA; SCPI_Input(&A.ctx, msg, len); TA.rest = (int) A.ctx.buffer.position;
    cur = &TB; SCPI_Input(&B.ctx, msg, l1); SCPI_Input(&B.ctx, msg + l1, len - l1); TB.rest = (int) B.ctx.buffer.position;
    __CPROVER_assert(same(&TA, &TB), "C08: same handler invocations, parameters, output, errors and remainder whether the two messages arrive in one call or in two");
    __CPROVER_assert(!TA.ovf && !TB.ovf, "trace buffers large enough");
    REACH("msg_twolines");
}

/* C09: message B after message A behaves like B on a fresh context (status/error queue effects aside) */
void h_msg_isolation(void) {
    static inst_t A, B; static trace_t T0, TA, TB; char ma[64], mb[64]; int sa[NUNITS], sb[NUNITS], na = NSEL, nb = NSEL, u;
    for (u = 0; u < NUNITS; u++) sa[u] = pick();
    for (u = 0; u < NUNITS; u++) sb[u] = sa[(u + 1) % NSEL];
    int la = build(ma, sizeof ma, sa, na), lb = build(mb, sizeof mb, sb, nb);
    init(&A); init(&B);
    cur = &T0; SCPI_Input(&A.ctx, ma, la);
    cur = &TA; SCPI_Input(&A.ctx, mb, lb); TA.rest = (int) A.ctx.buffer.position;
    cur = &TB; SCPI_Input(&B.ctx, mb, lb); TB.rest = (int) B.ctx.buffer.position;
    __CPROVER_assert(same(&TA, &TB), "C09: nothing but status and errors carries over from one message to the next");
    __CPROVER_assert(!T0.ovf && !TA.ovf && !TB.ovf, "trace buffers large enough");
    REACH("msg_isolation");
}
