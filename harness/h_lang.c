/* C13 language layer (bounded): each real recogniser against an index-based reference recogniser written
 * from IEEE 488.2 section 7 (with the source's documented leniencies), for every string of up to LEN bytes
 * over one representative per character class the recogniser distinguishes (incl. 0x00 and 0x80), embedded at
 * offset OFFS of a longer buffer, for every end position.  The reference returns the number of bytes of the
 * longest prefix that is a token of the kind (0 = none). */
#include "ghost.c"
size_t gh_li;
#include "lexer.c"
#ifndef LEN
#define LEN 6
#endif
#ifndef OFFS
#define OFFS 0
#endif
static char buf[OFFS + LEN + 2];
static int N;
static lex_state_t S; static scpi_token_t T;
static void mk(const char *alpha, unsigned na) {
    int i; N = nondet_int(); __CPROVER_assume(N >= 0 && N <= LEN);
    for (i = 0; i < OFFS; i++) buf[i] = '1';
    for (i = 0; i < LEN + 1; i++) { unsigned k = nondet_u8(); __CPROVER_assume(k < na); buf[OFFS + i] = alpha[k]; }   /* bytes behind the input are arbitrary too */
    S.buffer = buf; S.pos = buf + OFFS; S.len = OFFS + N; T.len = 12345; T.type = SCPI_TOKEN_COMMA; T.ptr = NULL;
}
#define B(i) (buf[OFFS + (i)])
static int isd(char c) { return c >= '0' && c <= '9'; }
static int isal(char c) { return (c >= 'a' && c <= 'z') || (c >= 'A' && c <= 'Z'); }
static void common_checks(int r, int expect, scpi_token_type_t type) {
    __CPROVER_assert(S.pos >= buf + OFFS && S.pos <= buf + OFFS + N, "C13: cursor never before the start or past the end of the input");
    if (expect == 0) __CPROVER_assert(r == 0 && S.pos == buf + OFFS && T.len == 0 && T.type == SCPI_TOKEN_UNKNOWN, "C13: nothing consumed, cursor rolled back, type UNKNOWN");
    else __CPROVER_assert(r == expect && S.pos == buf + OFFS + expect && T.type == type, "C13: exactly the longest token prefix consumed, type and result agree");
}
/* <CHARACTER PROGRAM DATA>: alpha (alnum | _)* */
void h_lang_character(void) {
    static const char A[] = {'a', 'Z', '1', '_', ' ', '-', 0, (char) 0x80}; mk(A, sizeof A);
    int e = 0; if (N > 0 && isal(B(0))) { e = 1; while (e < N && (isal(B(e)) || isd(B(e)) || B(e) == '_')) e++; }
    int r = scpiLex_CharacterProgramData(&S, &T);
    common_checks(r, e, SCPI_TOKEN_PROGRAM_MNEMONIC);
    if (e) __CPROVER_assert(T.ptr == buf + OFFS && T.len == e, "C13: extent");
    REACH("lang_character");
}
/* <DECIMAL NUMERIC PROGRAM DATA>: [+-]? (d+ (. d*)? | . d+) ( ws* [eE] ws* [+-]? d+ )? */
static int ref_decimal(void) {
    int p = 0, digits = 0;
    if (p < N && (B(p) == '+' || B(p) == '-')) p++;
    while (p < N && isd(B(p))) { p++; digits++; }
    if (p < N && B(p) == '.') { p++; while (p < N && isd(B(p))) { p++; digits++; } }
    if (!digits) return 0;
    int q = p; while (q < N && (B(q) == ' ' || B(q) == '\t')) q++;
    if (q < N && (B(q) == 'e' || B(q) == 'E')) { q++; while (q < N && (B(q) == ' ' || B(q) == '\t')) q++; if (q < N && (B(q) == '+' || B(q) == '-')) q++;
        int ed = 0; while (q < N && isd(B(q))) { q++; ed++; } if (ed) p = q; }
    return p;
}
void h_lang_decimal(void) {
    static const char A[] = {'1', '9', '+', '-', '.', 'E', 'e', ' ', 'a', (char) 0x80}; mk(A, sizeof A);
    int e = ref_decimal(); int r = scpiLex_DecimalNumericProgramData(&S, &T);
    common_checks(r, e, SCPI_TOKEN_DECIMAL_NUMERIC_PROGRAM_DATA);
    if (e) __CPROVER_assert(T.ptr == buf + OFFS && T.len == e, "C13: extent");
    REACH("lang_decimal");
}
/* <NONDECIMAL NUMERIC>: #H xdigit+ | #Q odigit+ | #B bdigit+ ; token = the digits, result counts the prefix */
void h_lang_nondecimal(void) {
    static const char A[] = {'#', 'H', 'h', 'Q', 'B', '1', '7', '8', 'f', 'g', ' '}; mk(A, sizeof A);
    int e = 0; scpi_token_type_t ty = SCPI_TOKEN_UNKNOWN;
    if (N >= 3 && B(0) == '#') {
        char c = B(1); int p = 2;
        if (c == 'H' || c == 'h') { while (p < N && (isd(B(p)) || (B(p) >= 'a' && B(p) <= 'f') || (B(p) >= 'A' && B(p) <= 'F'))) p++; ty = SCPI_TOKEN_HEXNUM; }
        else if (c == 'Q' || c == 'q') { while (p < N && B(p) >= '0' && B(p) <= '7') p++; ty = SCPI_TOKEN_OCTNUM; }
        else if (c == 'B' || c == 'b') { while (p < N && (B(p) == '0' || B(p) == '1')) p++; ty = SCPI_TOKEN_BINNUM; }
        if (p > 2 && ty != SCPI_TOKEN_UNKNOWN) e = p;
    }
    int r = scpiLex_NondecimalNumericData(&S, &T);
    common_checks(r, e, ty);
    if (e) __CPROVER_assert(T.ptr == buf + OFFS + 2 && T.len == e - 2, "C13: extent = the digits after the prefix");
    REACH("lang_nondecimal");
}
/* <STRING PROGRAM DATA>: q (7-bit non-q | q q)* q for q in {' "} */
void h_lang_string(void) {
    static const char A[] = {'"', '\'', 'a', ' ', (char) 0x80, 0, '\n'}; mk(A, sizeof A);
    int e = 0; scpi_token_type_t ty = SCPI_TOKEN_UNKNOWN;
    if (N >= 2 && (B(0) == '"' || B(0) == '\'')) {
        char q = B(0); int p = 1;
        for (;;) { if (p >= N) break; if (B(p) == q) { if (p + 1 < N && B(p + 1) == q) { p += 2; continue; } e = p + 1; break; } if (B(p) < 0) break; p++; }
        if (e) ty = q == '"' ? SCPI_TOKEN_DOUBLE_QUOTE_PROGRAM_DATA : SCPI_TOKEN_SINGLE_QUOTE_PROGRAM_DATA;
    }
    int r = scpiLex_StringProgramData(&S, &T);
    common_checks(r, e, ty);
    if (e) __CPROVER_assert(T.ptr == buf + OFFS && T.len == e, "C13: extent includes both quotes");
    REACH("lang_string");
}
/* <ARBITRARY BLOCK>: # nz n-digits data ; incomplete block swallows the rest */
void h_lang_block(void) {
    static const char A[] = {'#', '0', '1', '2', '3', 'a', '\n', (char) 0x80}; mk(A, sizeof A);
    int e = 0, incomplete = 0;
    if (N >= 1 && B(0) == '#') {
        if (N == 1) incomplete = 1;
        else if (B(1) >= '1' && B(1) <= '9') { int nd = B(1) - '0', p = 2, len = 0, k;
            for (k = 0; k < nd; k++) { if (p < N && isd(B(p))) { len = len * 10 + (B(p) - '0'); p++; } else break; }
            if (k == nd) { if (p + len <= N) e = p + len; else incomplete = 1; } else if (p >= N) incomplete = 1; }
    }
    int r = scpiLex_ArbitraryBlockProgramData(&S, &T);
    if (incomplete) __CPROVER_assert(r == 0 && S.pos == buf + OFFS + N && T.type == SCPI_TOKEN_UNKNOWN && T.len == 0, "C13: incomplete block: rest swallowed, nothing reported");
    else common_checks(r, e, SCPI_TOKEN_ARBITRARY_BLOCK_PROGRAM_DATA);
    if (e) { int nd = B(1) - '0'; __CPROVER_assert(T.ptr == buf + OFFS + 2 + nd && T.len == e - 2 - nd, "C13: extent = the data bytes"); }
    REACH("lang_block");
}
/* <EXPRESSION PROGRAM DATA> (flat): ( [0x20-0x7e except " # ' ( ) ;]* ) */
void h_lang_expression(void) {
    static const char A[] = {'(', ')', 'a', ' ', ';', '"', '#', '\n', (char) 0x80}; mk(A, sizeof A);
    int e = 0;
    if (N >= 2 && B(0) == '(') { int p = 1; while (p < N && B(p) >= 0x20 && B(p) <= 0x7e && B(p) != '"' && B(p) != '#' && B(p) != '\'' && B(p) != '(' && B(p) != ')' && B(p) != ';') p++; if (p < N && B(p) == ')') e = p + 1; }
    int r = scpiLex_ProgramExpression(&S, &T);
    common_checks(r, e, SCPI_TOKEN_PROGRAM_EXPRESSION);
    if (e) __CPROVER_assert(T.ptr == buf + OFFS && T.len == e, "C13: extent includes the parentheses");
    REACH("lang_expression");
}
/* <COMMAND PROGRAM HEADER>: complete forms only.  *mnemonic[?]  |  [:]mnemonic(:mnemonic)*[?] */
static int ref_mne(int p) { int q = p; if (q < N && isal(B(q))) { q++; while (q < N && (isal(B(q)) || isd(B(q)) || B(q) == '_')) q++; } return q - p; }
void h_lang_header(void) {
    static const char A[] = {'*', ':', 'a', 'B', '1', '_', '?', ' ', ';'}; mk(A, sizeof A);
    int e = 0; scpi_token_type_t ty = SCPI_TOKEN_UNKNOWN; int strict = 0;
    if (N > 0 && B(0) == '*') { int m = ref_mne(1); if (m > 0 && 1 + m < N) { e = 1 + m; ty = SCPI_TOKEN_COMMON_PROGRAM_HEADER; strict = 1; if (B(e) == '?') { e++; ty = SCPI_TOKEN_COMMON_QUERY_PROGRAM_HEADER; } } }
    else { int p = 0; if (p < N && B(p) == ':') p++; int m = ref_mne(p);
        if (m > 0) { p += m; for (;;) { if (p < N && B(p) == ':') { int m2 = ref_mne(p + 1); if (m2 > 0) { p += 1 + m2; continue; } } break; }
            /* strict only if the header is followed by a byte that cannot continue it (not at the end of input, not a dangling colon) */
            if (p < N && B(p) != ':') { e = p; ty = SCPI_TOKEN_COMPOUND_PROGRAM_HEADER; strict = 1; if (B(e) == '?') { e++; ty = SCPI_TOKEN_COMPOUND_QUERY_PROGRAM_HEADER; } } } }
    int r = scpiLex_ProgramHeader(&S, &T);
    __CPROVER_assert(S.pos >= buf + OFFS && S.pos <= buf + OFFS + N, "C13: cursor never before the start or past the end of the input");
    if (strict) { common_checks(r, e, ty); __CPROVER_assert(T.ptr == buf + OFFS && T.len == e, "C13: extent"); }
    else if (T.type == SCPI_TOKEN_COMMON_PROGRAM_HEADER || T.type == SCPI_TOKEN_COMMON_QUERY_PROGRAM_HEADER || T.type == SCPI_TOKEN_COMPOUND_PROGRAM_HEADER || T.type == SCPI_TOKEN_COMPOUND_QUERY_PROGRAM_HEADER)
        __CPROVER_assert(r == T.len && S.pos == buf + OFFS + r && r > 0 && (B(0) == '*' || B(0) == ':' || isal(B(0))), "C13: a header reported complete was consumed from the start of the input");
    REACH("lang_header");
}
