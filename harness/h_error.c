#include "ghost.c"
#ifndef SPLIT_CASE
#define SPLIT_CASE 0
#endif
#include "error.c"
void h_SCPI_ErrorInit(void) { scpi_t *c; scpi_error_t *d; int16_t n; SCPI_ErrorInit(c, d, n); REACH("SCPI_ErrorInit"); }
void h_SCPI_ErrorCount(void) { scpi_t *c; SCPI_ErrorCount(c); REACH("SCPI_ErrorCount"); }
#if USE_DEVICE_DEPENDENT_ERROR_INFORMATION && USE_MEMORY_ALLOCATION_FREE
void h_SCPI_ErrorAddInternal(void) { scpi_t *c; int16_t e; char *info; size_t n;
    gh_case = SPLIT_CASE;
    scpi_bool_t r = SCPI_ErrorAddInternal(c, e, info, n);
    #if SPLIT_CASE == 1
    if (r && info) REACH("SCPI_ErrorAddInternal:added-text"); else if (r) REACH("SCPI_ErrorAddInternal:added");
#else
    if (!r) REACH("SCPI_ErrorAddInternal:overflow");
#endif
}
#endif
void h_SCPI_ErrorPushEx(void) { KEEP_CALLBACK_CONTRACTS; scpi_t *c; int16_t e; char *info; size_t n;
    SCPI_ErrorPushEx(c, e, info, n);
    if (e > 0) REACH("SCPI_ErrorPushEx:positive"); else if (info && n == 0) REACH("SCPI_ErrorPushEx:autolen"); else REACH("SCPI_ErrorPushEx:other"); }
void h_SCPI_ErrorPush(void) { KEEP_CALLBACK_CONTRACTS; scpi_t *c; int16_t e; SCPI_ErrorPush(c, e); REACH("SCPI_ErrorPush"); }
void h_SCPI_ErrorPop(void) { KEEP_CALLBACK_CONTRACTS; scpi_t *c; scpi_error_t *e; scpi_bool_t r = SCPI_ErrorPop(c, e);
    if (!r) REACH("SCPI_ErrorPop:null"); else REACH("SCPI_ErrorPop:popped"); }
void h_SCPI_ErrorClear(void) { KEEP_CALLBACK_CONTRACTS; scpi_t *c; SCPI_ErrorClear(c); REACH("SCPI_ErrorClear"); }
