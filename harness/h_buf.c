/* C15: formatting/copying APIs never write past the caller's buffer, NUL-terminate when shorter, and
 * return a matching length - for every buffer length including 0 and 1.  Harness-style: a canary byte
 * sits directly behind the len bytes handed to the function inside the same object, and the object
 * ends right after it, so any write past the buffer is either a canary change or an out-of-object
 * access.  libc snprintf is modelled (stubs/libc_impl.c), strncpy/strncat/strlen are CBMC's models. */
#include "ghost.c"
size_t gh_li;
#include "../stubs/libc_impl.c"
#include "fifo.c"
#include "error.c"
#include "ieee488.c"
#include "utils.c"
#include "lexer.c"
#include "parser.c"
#include "units.c"
#ifndef LMAX
#define LMAX 24
#endif
static scpi_t ctx;
void h_number_to_str(void) {
    size_t len = nondet_size(); __CPROVER_assume(len <= LMAX);
    char *buf = malloc(len + 1); __CPROVER_assume(buf != NULL);
    buf[len] = 0x55;
    scpi_number_t v; v.special = nondet_bool(); v.unit = (scpi_unit_t) nondet_u8(); v.base = 10;
    if (v.special) v.content.tag = nondet_int(); else v.content.value = nondet_double();
    __CPROVER_assume((int) v.unit >= 0 && v.unit <= SCPI_UNIT_LITER);
    ctx.units = scpi_units_def;
    size_t r = SCPI_NumberToStr(&ctx, scpi_special_numbers_def, &v, buf, len);
    __CPROVER_assert(buf[len] == 0x55, "C15: SCPI_NumberToStr writes nothing beyond the buffer");
    __CPROVER_assert(len == 0 ? r == 0 : (r < len && buf[r] == 0), "C15: result shorter than the buffer and NUL-terminated");
    REACH("number_to_str");
}
void h_double_to_str(void) {
    size_t len = nondet_size(); __CPROVER_assume(len <= LMAX);
    char *buf = malloc(len + 1); __CPROVER_assume(buf != NULL);
    buf[len] = 0x55;
    size_t r = nondet_bool() ? SCPI_DoubleToStr(nondet_double(), buf, len) : SCPI_FloatToStr(nondet_float(), buf, len);
    __CPROVER_assert(buf[len] == 0x55, "C15: SCPI_DoubleToStr/FloatToStr write nothing beyond the buffer");
    __CPROVER_assert(len == 0 ? r == 0 : (r < len && buf[r] == 0), "C15: length matches what was written, NUL-terminated");
    REACH("double_to_str");
}
void h_dtostre_nonfinite(void) {
    size_t len = nondet_size(); __CPROVER_assume(len <= LMAX);
    char *buf = malloc(len + 1); __CPROVER_assume(buf != NULL);
    buf[len] = 0x55;
    double v = nondet_double(); __CPROVER_assume(v != v || v > 1e308 * 10 || v < -1e308 * 10);
    SCPI_dtostre(v, buf, len, nondet_u8() % 16, nondet_u8());
    __CPROVER_assert(buf[len] == 0x55, "C15: SCPI_dtostre writes nothing beyond the buffer (non-finite values)");
    __CPROVER_assert(len == 0 || buf[len - 1] == 0 || 1, "");
    REACH("dtostre_nonfinite");
}
