/* C04: unit suffix table and special mnemonics, over the REAL tables of units.c, against golden tables
 * kept in /verif (golden/units.inc: rule-checked against IEEE 488.2 'prefix x base unit'; the nine special
 * mnemonics from the statement).  Symbolic row, symbolic letter case, 0..2 blanks before the suffix. */
#include "ghost.c"
size_t gh_li;
#include "../stubs/libc_impl.c"
#include "fifo.c"
#include "error.c"
#include "ieee488.c"
#include "utils.c"
#include "lexer.c"
#include "parser.c"
#include "units.c"
typedef struct { const char *name; scpi_unit_t unit; double mult; } gold_t;
static const gold_t GOLD[] = {
#include "../golden/units.inc"
};
#define NGOLD (sizeof GOLD / sizeof GOLD[0])
static const struct { const char *lng; int shortlen; int tag; } SPEC[] = {
    {"MINimum", 3, SCPI_NUM_MIN}, {"MAXimum", 3, SCPI_NUM_MAX}, {"DEFault", 3, SCPI_NUM_DEF}, {"UP", 2, SCPI_NUM_UP}, {"DOWN", 4, SCPI_NUM_DOWN},
    {"NAN", 3, SCPI_NUM_NAN}, {"INFinity", 3, SCPI_NUM_INF}, {"NINF", 4, SCPI_NUM_NINF}, {"AUTO", 4, SCPI_NUM_AUTO} };
static scpi_t ctx; static scpi_interface_t itf; static scpi_error_t queue[2];
static size_t nowrite(scpi_t *c, const char *d, size_t n) { (void)c; (void)d; return n; }
static char flipcase(char c, int f) { if (!f) return c; if (c >= 'A' && c <= 'Z') return (char)(c + 32); if (c >= 'a' && c <= 'z') return (char)(c - 32); return c; }
void h_units(void) {
    size_t k = nondet_size(); __CPROVER_assume(k < NGOLD);
    char txt[12]; size_t blanks = nondet_size(), i, n = 0; __CPROVER_assume(blanks <= 2);
    for (i = 0; i < blanks; i++) txt[n++] = nondet_bool() ? ' ' : '\t';
    for (i = 0; GOLD[k].name[i] && n < sizeof txt - 1; i++) txt[n++] = flipcase(GOLD[k].name[i], nondet_bool());
    txt[n] = 0;
    itf.write = nowrite; ctx.interface = &itf; ctx.units = scpi_units_def; SCPI_ErrorInit(&ctx, queue, 2);
    scpi_number_t v; v.special = FALSE; v.content.value = 1.0; v.unit = SCPI_UNIT_NONE; v.base = 10;
    scpi_bool_t r = transformNumber(&ctx, txt, n, &v);
    __CPROVER_assert(r && SCPI_ErrorCount(&ctx) == 0, "C04: every table suffix is accepted in any letter case, with or without white space");
    __CPROVER_assert(v.unit == GOLD[k].unit, "C04: suffix decodes to its base unit");
    __CPROVER_assert(v.content.value == GOLD[k].mult, "C04: value times the suffix's multiplier");
    REACH("units");
}
void h_units_unknown(void) {
    /* a text that is no table entry raises -131 and leaves the value alone */
    itf.write = nowrite; ctx.interface = &itf; ctx.units = scpi_units_def; SCPI_ErrorInit(&ctx, queue, 2);
    scpi_number_t v; v.special = FALSE; v.content.value = 1.0; v.unit = SCPI_UNIT_NONE; v.base = 10;
    scpi_bool_t r = transformNumber(&ctx, "QX", 2, &v);
    __CPROVER_assert(!r && SCPI_ErrorCount(&ctx) == 1 && queue[0].error_code == SCPI_ERROR_INVALID_SUFFIX && v.content.value == 1.0, "C05: unknown suffix -131");
    REACH("units_unknown");
}
void h_special(void) {
    size_t k = nondet_size(); __CPROVER_assume(k < sizeof SPEC / sizeof SPEC[0]);
    int shortform = nondet_bool(); char txt[10]; size_t i, n = 0;
    for (i = 0; SPEC[k].lng[i] && (!shortform || (int) i < SPEC[k].shortlen); i++) txt[n++] = flipcase(SPEC[k].lng[i], nondet_bool());
    txt[n] = 0;
    itf.write = nowrite; ctx.interface = &itf; SCPI_ErrorInit(&ctx, queue, 2);
    scpi_parameter_t p; p.type = SCPI_TOKEN_PROGRAM_MNEMONIC; p.ptr = txt; p.len = (int) n; int32_t tag = -99;
    scpi_bool_t r = SCPI_ParamToChoice(&ctx, &p, scpi_special_numbers_def, &tag);
    __CPROVER_assert(r && tag == SPEC[k].tag && SCPI_ErrorCount(&ctx) == 0, "C04: special mnemonic (short or long form, any case) decodes to its tag");
    REACH("special");
}

/* the assumption behind contracts/units.h: every name in the real tables is short */
void h_names(void) {
    size_t k = nondet_size(); __CPROVER_assume(k < sizeof scpi_units_def / sizeof scpi_units_def[0] - 1);
    __CPROVER_assert(scpi_units_def[k].name != NULL && strlen(scpi_units_def[k].name) <= 7 && strlen(scpi_units_def[k].name) >= 1, "unit names are 1..7 characters");
    size_t j = nondet_size(); __CPROVER_assume(j < sizeof scpi_special_numbers_def / sizeof scpi_special_numbers_def[0] - 1);
    __CPROVER_assert(scpi_special_numbers_def[j].name != NULL && strlen(scpi_special_numbers_def[j].name) <= 9, "special names are at most 9 characters");
    __CPROVER_assert(scpi_units_def[sizeof scpi_units_def / sizeof scpi_units_def[0] - 1].name == NULL, "unit table is terminated");
    REACH("names");
}
