#include "ghost.c"
#include "fifo.c"
void h_fifo_init(void) { scpi_fifo_t *f; scpi_error_t *d; int16_t n; fifo_init(f, d, n); REACH("fifo_init"); }
void h_fifo_clear(void) { scpi_fifo_t *f; fifo_clear(f); REACH("fifo_clear"); }
void h_fifo_is_empty(void) { scpi_fifo_t *f; fifo_is_empty(f); REACH("fifo_is_empty"); }
void h_fifo_is_full(void) { scpi_fifo_t *f; fifo_is_full(f); REACH("fifo_is_full"); }
void h_fifo_add(void) { scpi_fifo_t *f; const scpi_error_t *v; scpi_bool_t r = fifo_add(f, v);
    if (r) REACH("fifo_add:added"); else if (v) REACH("fifo_add:full"); else REACH("fifo_add:null"); }
void h_fifo_remove(void) { scpi_fifo_t *f; scpi_error_t *v; scpi_bool_t r = fifo_remove(f, v);
    if (r) REACH("fifo_remove:removed"); else REACH("fifo_remove:empty"); }
void h_fifo_remove_last(void) { scpi_fifo_t *f; scpi_error_t *v; scpi_bool_t r = fifo_remove_last(f, v);
    if (r) REACH("fifo_remove_last:removed"); else REACH("fifo_remove_last:empty"); }
void h_fifo_count(void) { scpi_fifo_t *f; int16_t *v; fifo_count(f, v); REACH("fifo_count"); }
