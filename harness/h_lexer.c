#include "ghost.c"
size_t gh_li;
#include "lexer.c"
void h_skipWs(void) { lex_state_t *s; skipWs(s); REACH("skipWs"); }
void h_skipNumbers(void) { lex_state_t *s; skipNumbers(s); REACH("skipNumbers"); }
void h_skipAlpha(void) { lex_state_t *s; skipAlpha(s); REACH("skipAlpha"); }
void h_skipHexNum(void) { lex_state_t *s; skipHexNum(s); REACH("skipHexNum"); }
void h_skipOctNum(void) { lex_state_t *s; skipOctNum(s); REACH("skipOctNum"); }
void h_skipBinNum(void) { lex_state_t *s; skipBinNum(s); REACH("skipBinNum"); }
void h_skipProgramExpression(void) { lex_state_t *s; skipProgramExpression(s); REACH("skipProgramExpression"); }
void h_skipProgramMnemonic(void) { lex_state_t *s; skipProgramMnemonic(s); REACH("skipProgramMnemonic"); }
void h_skipMantisa(void) { lex_state_t *s; skipMantisa(s); REACH("skipMantisa"); }
void h_skipExponent(void) { lex_state_t *s; skipExponent(s); REACH("skipExponent"); }
void h_skipCommonProgramHeader(void) { lex_state_t *s; skipCommonProgramHeader(s); REACH("skipCommonProgramHeader"); }
void h_skipCompoundProgramHeader(void) { lex_state_t *s; skipCompoundProgramHeader(s); REACH("skipCompoundProgramHeader"); }
void h_scpiLex_IsEos(void) { lex_state_t *s; scpiLex_IsEos(s); REACH("scpiLex_IsEos"); }
void h_skipQuoteProgramData(void) { lex_state_t *s; char q; skipQuoteProgramData(s, q); REACH("skipQuoteProgramData"); }
void h_scpiLex_WhiteSpace(void) { lex_state_t *s; scpi_token_t *t; int r = scpiLex_WhiteSpace(s, t); if (r > 0) REACH("scpiLex_WhiteSpace:accept"); else REACH("scpiLex_WhiteSpace:reject"); }
void h_scpiLex_ProgramHeader(void) { lex_state_t *s; scpi_token_t *t; int r = scpiLex_ProgramHeader(s, t); if (r > 0) REACH("scpiLex_ProgramHeader:accept"); else REACH("scpiLex_ProgramHeader:reject"); }
void h_scpiLex_CharacterProgramData(void) { lex_state_t *s; scpi_token_t *t; int r = scpiLex_CharacterProgramData(s, t); if (r > 0) REACH("scpiLex_CharacterProgramData:accept"); else REACH("scpiLex_CharacterProgramData:reject"); }
void h_scpiLex_DecimalNumericProgramData(void) { lex_state_t *s; scpi_token_t *t; int r = scpiLex_DecimalNumericProgramData(s, t); if (r > 0) REACH("scpiLex_DecimalNumericProgramData:accept"); else REACH("scpiLex_DecimalNumericProgramData:reject"); }
void h_scpiLex_SuffixProgramData(void) { lex_state_t *s; scpi_token_t *t; int r = scpiLex_SuffixProgramData(s, t); if (r > 0) REACH("scpiLex_SuffixProgramData:accept"); else REACH("scpiLex_SuffixProgramData:reject"); }
void h_scpiLex_NondecimalNumericData(void) { lex_state_t *s; scpi_token_t *t; int r = scpiLex_NondecimalNumericData(s, t); if (r > 0) REACH("scpiLex_NondecimalNumericData:accept"); else REACH("scpiLex_NondecimalNumericData:reject"); }
void h_scpiLex_StringProgramData(void) { lex_state_t *s; scpi_token_t *t; int r = scpiLex_StringProgramData(s, t); if (r > 0) REACH("scpiLex_StringProgramData:accept"); else REACH("scpiLex_StringProgramData:reject"); }
void h_scpiLex_ArbitraryBlockProgramData(void) { lex_state_t *s; scpi_token_t *t; int r = scpiLex_ArbitraryBlockProgramData(s, t); if (r > 0) REACH("scpiLex_ArbitraryBlockProgramData:accept"); else REACH("scpiLex_ArbitraryBlockProgramData:reject"); }
void h_scpiLex_ProgramExpression(void) { lex_state_t *s; scpi_token_t *t; int r = scpiLex_ProgramExpression(s, t); if (r > 0) REACH("scpiLex_ProgramExpression:accept"); else REACH("scpiLex_ProgramExpression:reject"); }
void h_scpiLex_Comma(void) { lex_state_t *s; scpi_token_t *t; int r = scpiLex_Comma(s, t); if (r > 0) REACH("scpiLex_Comma:accept"); else REACH("scpiLex_Comma:reject"); }
void h_scpiLex_Semicolon(void) { lex_state_t *s; scpi_token_t *t; int r = scpiLex_Semicolon(s, t); if (r > 0) REACH("scpiLex_Semicolon:accept"); else REACH("scpiLex_Semicolon:reject"); }
void h_scpiLex_Colon(void) { lex_state_t *s; scpi_token_t *t; int r = scpiLex_Colon(s, t); if (r > 0) REACH("scpiLex_Colon:accept"); else REACH("scpiLex_Colon:reject"); }
void h_scpiLex_NewLine(void) { lex_state_t *s; scpi_token_t *t; int r = scpiLex_NewLine(s, t); if (r > 0) REACH("scpiLex_NewLine:accept"); else REACH("scpiLex_NewLine:reject"); }
void h_scpiLex_SpecificCharacter(void) { lex_state_t *s; scpi_token_t *t; char c; int r = scpiLex_SpecificCharacter(s, t, c); if (r > 0) REACH("scpiLex_SpecificCharacter:accept"); else REACH("scpiLex_SpecificCharacter:reject"); }
