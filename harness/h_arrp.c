/* binary array formatter under contract (C17): every element count */
#include "ghost.c"
size_t gh_li;
#include "utils.c"
#include "parser.c"
void h_produceResultArrayBinary(void) { KEEP_CALLBACK_CONTRACTS; scpi_t *c; const void *a; size_t n, sz; scpi_array_format_t f;
    size_t r = produceResultArrayBinary(c, a, n, sz, f);
#if ARR_FIX
    (void) r; REACH("produceResultArrayBinary:wrote");      /* a known element size always writes at least the header */
    if (f != HOST_FORMAT && n > 1) REACH("produceResultArrayBinary:swapped-several");   /* the loop contract's exit state is reachable */
    if (f != HOST_FORMAT && n == 0) REACH("produceResultArrayBinary:swapped-empty");
    if (f == HOST_FORMAT) REACH("produceResultArrayBinary:host-order");
#else
    (void) r; REACH("produceResultArrayBinary:refused");
#endif
}
