/* text -> number helpers of utils.c under contract (C04): each is one call of the libc conversion of the right type */
#include "ghost.c"
#include "utils.c"
/* keep the libc symbols in the binary even if a helper stops calling its own (the job then fails on the contract, not in the tool) */
void *keep_conv[] = { (void *) strtol, (void *) strtoul, (void *) strtoll, (void *) strtoull, (void *) strtof, (void *) strtod };
#define HC(fn, T) void h_##fn(void) { const char *t; T *v; int8_t b = nondet_i8(); size_t r = fn(t, v, b); if (r) REACH(#fn ":used"); else REACH(#fn ":none"); }
HC(strBaseToInt32, int32_t) HC(strBaseToUInt32, uint32_t) HC(strBaseToInt64, int64_t) HC(strBaseToUInt64, uint64_t)
void h_strToFloat(void) { const char *t; float *v; size_t r = strToFloat(t, v); if (r) REACH("strToFloat:used"); else REACH("strToFloat:none"); }
void h_strToDouble(void) { const char *t; double *v; size_t r = strToDouble(t, v); if (r) REACH("strToDouble:used"); else REACH("strToDouble:none"); }
