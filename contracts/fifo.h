/* Contracts for libscpi/src/fifo.c (C10): ring buffer with representation invariant QINV and
 * abstract view QVIEW(f,k), k < count.  gh_k is a witness slot: the postconditions speak about
 * an arbitrary slot of the whole view, so a change that corrupts another slot fails. */
#include "common.h"
#include "fifo_private.h"
extern unsigned short gh_k;
#define FPRE(f) (__CPROVER_is_fresh((f), sizeof(*(f))) && QPRE(f))
#define QSAME(f) ((f)->size == OLD((f)->size) && (f)->data == OLD((f)->data))
#define EQ_ENTRY_OLD(f, k_new, k_old) \
    (QVIEW(f, k_new).error_code == OLD(QVIEW(f, k_old).error_code) && QVIEW(f, k_new).device_dependent_info == OLD(QVIEW(f, k_old).device_dependent_info))

void fifo_init(scpi_fifo_t * fifo, scpi_error_t * data, int16_t size)
__CPROVER_requires(__CPROVER_is_fresh(fifo, sizeof(*fifo)))
__CPROVER_assigns(*fifo)
__CPROVER_ensures(fifo->wr == 0 && fifo->rd == 0 && fifo->count == 0 && fifo->data == data && fifo->size == size)
;
void fifo_clear(scpi_fifo_t * fifo)
__CPROVER_requires(__CPROVER_is_fresh(fifo, sizeof(*fifo)))
__CPROVER_assigns(fifo->wr, fifo->rd, fifo->count)
__CPROVER_ensures(fifo->wr == 0 && fifo->rd == 0 && fifo->count == 0 && QSAME(fifo))
;
scpi_bool_t fifo_is_empty(scpi_fifo_t * fifo)
__CPROVER_requires(__CPROVER_is_fresh(fifo, sizeof(*fifo)))
__CPROVER_assigns()
__CPROVER_ensures(RET == (fifo->count == 0))
;
scpi_bool_t fifo_is_full(scpi_fifo_t * fifo)
__CPROVER_requires(__CPROVER_is_fresh(fifo, sizeof(*fifo)))
__CPROVER_assigns()
__CPROVER_ensures(RET == (fifo->count == fifo->size))
;
scpi_bool_t fifo_add(scpi_fifo_t * fifo, const scpi_error_t * value)
__CPROVER_requires(FPRE(fifo))
__CPROVER_requires(value == NULL || __CPROVER_is_fresh(value, sizeof(*value)))
/* frame: the slot at the write index only */
__CPROVER_assigns(fifo->wr, fifo->count; (fifo->count < fifo->size && value != NULL): fifo->data[fifo->wr])
__CPROVER_ensures(QINV(fifo) && QSAME(fifo) && fifo->rd == OLD(fifo->rd))
__CPROVER_ensures(RET == (OLD(fifo->count) < fifo->size && value != NULL))
__CPROVER_ensures(RET ==> (fifo->count == OLD(fifo->count) + 1
    && QVIEW(fifo, fifo->count - 1).error_code == value->error_code
    && QVIEW(fifo, fifo->count - 1).device_dependent_info == value->device_dependent_info))
__CPROVER_ensures(!RET ==> (fifo->count == OLD(fifo->count) && fifo->wr == OLD(fifo->wr)))
__CPROVER_ensures(gh_k < OLD(fifo->count) ==> EQ_ENTRY_OLD(fifo, gh_k, gh_k))
;
scpi_bool_t fifo_remove(scpi_fifo_t * fifo, scpi_error_t * value)
__CPROVER_requires(FPRE(fifo))
__CPROVER_requires(value == NULL || __CPROVER_is_fresh(value, sizeof(*value)))
__CPROVER_assigns(fifo->rd, fifo->count; value != NULL: *value)
__CPROVER_ensures(QINV(fifo) && QSAME(fifo) && fifo->wr == OLD(fifo->wr))
__CPROVER_ensures(RET == (OLD(fifo->count) > 0))
__CPROVER_ensures(RET ==> fifo->count == OLD(fifo->count) - 1)
__CPROVER_ensures((RET && value != NULL) ==> (value->error_code == OLD(QVIEW(fifo, 0).error_code) && value->device_dependent_info == OLD(QVIEW(fifo, 0).device_dependent_info)))
__CPROVER_ensures(!RET ==> (fifo->count == 0 && fifo->rd == OLD(fifo->rd)))
__CPROVER_ensures((!RET && value != NULL) ==> (value->error_code == OLD(value->error_code) && value->device_dependent_info == OLD(value->device_dependent_info)))
/* the rest of the view shifts down by one */
__CPROVER_ensures((gh_k >= 1 && gh_k < OLD(fifo->count)) ==> EQ_ENTRY_OLD(fifo, gh_k - 1, gh_k))
;
scpi_bool_t fifo_remove_last(scpi_fifo_t * fifo, scpi_error_t * value)
__CPROVER_requires(FPRE(fifo))
__CPROVER_requires(value == NULL || __CPROVER_is_fresh(value, sizeof(*value)))
__CPROVER_assigns(fifo->wr, fifo->count; value != NULL: *value)
__CPROVER_ensures(QINV(fifo) && QSAME(fifo) && fifo->rd == OLD(fifo->rd))
__CPROVER_ensures(RET == (OLD(fifo->count) > 0))
__CPROVER_ensures(RET ==> fifo->count == OLD(fifo->count) - 1)
__CPROVER_ensures((RET && value != NULL) ==> (value->error_code == OLD(QVIEW(fifo, (fifo->count > 0 ? fifo->count - 1 : 0)).error_code)
    && value->device_dependent_info == OLD(QVIEW(fifo, (fifo->count > 0 ? fifo->count - 1 : 0)).device_dependent_info)))
__CPROVER_ensures(!RET ==> (fifo->count == 0 && fifo->wr == OLD(fifo->wr)))
/* everything below the removed slot is untouched */
__CPROVER_ensures(gh_k + 1 < OLD(fifo->count) ==> EQ_ENTRY_OLD(fifo, gh_k, gh_k))
;
scpi_bool_t fifo_count(scpi_fifo_t * fifo, int16_t * value)
__CPROVER_requires(__CPROVER_is_fresh(fifo, sizeof(*fifo)) && __CPROVER_is_fresh(value, sizeof(*value)))
__CPROVER_assigns(*value)
__CPROVER_ensures(RET && *value == fifo->count)
;
