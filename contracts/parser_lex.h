/* Contracts for the program-data / message-unit recognisers in libscpi/src/parser.c
 * (C13 second sentence, C05, C08, C01). */
#ifndef VERIF_PARSER_LEX_H
#define VERIF_PARSER_LEX_H
#include "lexer.h"
#include "parser_private.h"

#define IS_DATA_TYPE(t) ((t) == SCPI_TOKEN_HEXNUM || (t) == SCPI_TOKEN_OCTNUM || (t) == SCPI_TOKEN_BINNUM || (t) == SCPI_TOKEN_PROGRAM_MNEMONIC \
    || (t) == SCPI_TOKEN_DECIMAL_NUMERIC_PROGRAM_DATA || (t) == SCPI_TOKEN_DECIMAL_NUMERIC_PROGRAM_DATA_WITH_SUFFIX \
    || (t) == SCPI_TOKEN_ARBITRARY_BLOCK_PROGRAM_DATA || (t) == SCPI_TOKEN_SINGLE_QUOTE_PROGRAM_DATA || (t) == SCPI_TOKEN_DOUBLE_QUOTE_PROGRAM_DATA \
    || (t) == SCPI_TOKEN_PROGRAM_EXPRESSION)

/* one <PROGRAM DATA> item with the white space around it.
 * The result is the number of bytes consumed -- the callers (parameter list scan, unit detection)
 * add it up to delimit the unit, so a result that differs from the displacement cuts the data
 * short.  The single documented exception is an incomplete definite-length block: the rest of
 * the input is swallowed, nothing is reported. */
int scpiParser_parseProgramData(lex_state_t * state, scpi_token_t * token)
__CPROVER_requires(TOK_PRE(state, token))
__CPROVER_assigns(state->pos, *token)
__CPROVER_ensures(MONO(state))
__CPROVER_ensures(IS_DATA_TYPE(token->type) || token->type == SCPI_TOKEN_UNKNOWN)
__CPROVER_ensures(token->type != SCPI_TOKEN_UNKNOWN ==> RET == DISP(state))
__CPROVER_ensures(token->type == SCPI_TOKEN_UNKNOWN ==> (token->len == 0 && (RET == DISP(state) || (LEX_ATEND(state) && RET >= 0 && RET <= DISP(state)))))
/* the token lies inside the consumed range, after the leading white space */
__CPROVER_ensures(token->type != SCPI_TOKEN_UNKNOWN ==> (token->len >= 0 && __CPROVER_pointer_in_range_dfcc(POS0(state), token->ptr, state->pos)
    && OFF(token->ptr) + token->len <= OFF(state->pos) && DISP(state) > 0))
__CPROVER_ensures((token->type != SCPI_TOKEN_UNKNOWN && token->type != SCPI_TOKEN_ARBITRARY_BLOCK_PROGRAM_DATA) ==> token->len > 0)
__CPROVER_ensures((token->type == SCPI_TOKEN_SINGLE_QUOTE_PROGRAM_DATA || token->type == SCPI_TOKEN_DOUBLE_QUOTE_PROGRAM_DATA || token->type == SCPI_TOKEN_PROGRAM_EXPRESSION) ==> token->len >= 2)
/* trailing white space belongs to the item */
__CPROVER_ensures(NEXT_NOT(state, ISWS))
;

/* comma-separated list of items: token = the whole list */
int scpiParser_parseAllProgramData(lex_state_t * state, scpi_token_t * token, int * numberOfParameters)
__CPROVER_requires(TOK_PRE(state, token))
__CPROVER_requires(numberOfParameters == NULL || __CPROVER_is_fresh(numberOfParameters, sizeof(int)))
__CPROVER_assigns(state->pos, *token; numberOfParameters != NULL: *numberOfParameters)
__CPROVER_ensures(MONO(state))
__CPROVER_ensures(RET == token->len && PTR_IS(token->ptr, POS0(state)))
__CPROVER_ensures(token->type == SCPI_TOKEN_ALL_PROGRAM_DATA || token->type == SCPI_TOKEN_UNKNOWN)
__CPROVER_ensures(token->type == SCPI_TOKEN_ALL_PROGRAM_DATA ==> (token->len == DISP(state) && token->len > 0))
__CPROVER_ensures(token->type == SCPI_TOKEN_UNKNOWN ==> token->len == 0)
__CPROVER_ensures(numberOfParameters != NULL ==> (token->type == SCPI_TOKEN_ALL_PROGRAM_DATA ? (*numberOfParameters >= 1 && *numberOfParameters <= DISP(state)) : *numberOfParameters == -1))
/* a well-formed list ends where no further item can follow: not at a comma */
__CPROVER_ensures(token->type == SCPI_TOKEN_ALL_PROGRAM_DATA ==> (LEX_ATEND(state) || state->pos[0] != ','))
;

#define PS_TERM_OK(st) ((st)->termination == SCPI_MESSAGE_TERMINATION_NONE || (st)->termination == SCPI_MESSAGE_TERMINATION_NL || (st)->termination == SCPI_MESSAGE_TERMINATION_SEMICOLON)
/* one <PROGRAM MESSAGE UNIT> with its separator/terminator */
int scpiParser_detectProgramMessageUnit(scpi_parser_state_t * state, char * buffer, int len)
__CPROVER_requires(__CPROVER_is_fresh(state, sizeof(*state)))
__CPROVER_requires(len >= 0 && len <= LEXMAX && __CPROVER_is_fresh(buffer, (size_t) len + 1))
__CPROVER_assigns(*state)
__CPROVER_ensures(RET >= 0 && RET <= len)
/* progress: a non-empty input always loses at least one byte (C01 termination of the unit loops) */
__CPROVER_ensures(len > 0 ==> RET >= 1)
__CPROVER_ensures(PS_TERM_OK(state))
__CPROVER_ensures(state->termination == SCPI_MESSAGE_TERMINATION_NL ==> (RET >= 1 && (buffer[RET - 1] == '\n' || buffer[RET - 1] == '\r')))
__CPROVER_ensures(state->termination == SCPI_MESSAGE_TERMINATION_SEMICOLON ==> (RET >= 1 && buffer[RET - 1] == ';'))
__CPROVER_ensures(state->termination == SCPI_MESSAGE_TERMINATION_NONE ==> (RET == len || state->programHeader.type == SCPI_TOKEN_INVALID))
__CPROVER_ensures(IS_HEADER_TYPE(state->programHeader.type) || state->programHeader.type == SCPI_TOKEN_UNKNOWN || state->programHeader.type == SCPI_TOKEN_INVALID)
/* header token inside the unit */
__CPROVER_ensures(IS_HEADER_TYPE(state->programHeader.type) ==> (state->programHeader.len > 0
    && __CPROVER_pointer_in_range_dfcc(buffer, state->programHeader.ptr, buffer + RET)
    && OFF(state->programHeader.ptr) + state->programHeader.len <= OFF(buffer) + RET))
#ifdef HDR_LASTBYTE
/* a header never ends in CR or LF (so trimming the terminator cannot eat into it) */
__CPROVER_ensures(IS_HEADER_TYPE(state->programHeader.type) ==> (state->programHeader.ptr[state->programHeader.len - 1] != '\r' && state->programHeader.ptr[state->programHeader.len - 1] != '\n'))
#endif
__CPROVER_ensures(state->programHeader.type == SCPI_TOKEN_UNKNOWN ==> state->programHeader.len == 0)
__CPROVER_ensures(state->programHeader.type == SCPI_TOKEN_INVALID ==> (state->programHeader.len == 1 && state->programData.len == 0))
/* program data: empty, or the list that follows the header and its white space, inside the unit */
__CPROVER_ensures(state->programData.len >= 0)
__CPROVER_ensures(state->programData.len > 0 ==> (IS_HEADER_TYPE(state->programHeader.type) && state->programData.type == SCPI_TOKEN_ALL_PROGRAM_DATA
    && __CPROVER_pointer_in_range_dfcc(buffer, state->programData.ptr, buffer + RET)
    && OFF(state->programData.ptr) > OFF(state->programHeader.ptr) + state->programHeader.len
    && OFF(state->programData.ptr) + state->programData.len <= OFF(buffer) + RET
    && state->numberOfParameters >= 1))
__CPROVER_ensures((IS_HEADER_TYPE(state->programHeader.type) && state->programData.len == 0) ==>
    (__CPROVER_pointer_in_range_dfcc(buffer, state->programData.ptr, buffer + RET)))
/* C05/C13: the program data is the whole list (ALL_PROGRAM_DATA), absent (UNKNOWN, nothing but the terminator follows the
 * white space after the header) or malformed (INVALID: the list ends with a separator; it is never delivered, see SCPI_Parse) */
__CPROVER_ensures(state->programData.type == SCPI_TOKEN_ALL_PROGRAM_DATA || state->programData.type == SCPI_TOKEN_UNKNOWN || state->programData.type == SCPI_TOKEN_INVALID)
__CPROVER_ensures(state->programData.type == SCPI_TOKEN_INVALID ==> (IS_HEADER_TYPE(state->programHeader.type) && state->programData.len == 0 && state->numberOfParameters < 0))
__CPROVER_ensures(state->programData.type == SCPI_TOKEN_ALL_PROGRAM_DATA ==> state->programData.len > 0)
#define UNIT_TAIL(st, r) ((long) (OFF(buffer) + (r)) - (long) (OFF((st)->programData.ptr) + (st)->programData.len))
__CPROVER_ensures((IS_HEADER_TYPE(state->programHeader.type) && state->programData.type != SCPI_TOKEN_INVALID) ==>
    (state->termination == SCPI_MESSAGE_TERMINATION_NONE ? UNIT_TAIL(state, RET) == 0
     : state->termination == SCPI_MESSAGE_TERMINATION_SEMICOLON ? UNIT_TAIL(state, RET) == 1
     : (UNIT_TAIL(state, RET) == 1 || (UNIT_TAIL(state, RET) == 2 && buffer[RET >= 2 ? RET - 2 : 0] == '\r'))))
/* text after the header that is not a well-formed data list followed by ; NL or the end
 * invalidates the unit: a valid header is followed (after data) only by a terminator or the end */
__CPROVER_ensures(IS_HEADER_TYPE(state->programHeader.type) ==> (state->termination != SCPI_MESSAGE_TERMINATION_NONE || RET == len))
;
#endif
