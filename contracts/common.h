/* Shared specification vocabulary (DESIGN section 2).  Force-included before the repository
 * file by goto-cc (-include).  Contains only declarations, macros and ghost state. */
#ifndef VERIF_COMMON_H
#define VERIF_COMMON_H

#include <stddef.h>
#include <stdint.h>
#include <string.h>
#include <ctype.h>
/* C11 7.4p1: the argument of a <ctype.h> function must be EOF or representable as unsigned char,
 * anything else is undefined behaviour (and indexes outside the table on newlib).  The C-locale
 * classification itself is CBMC's library model; these wrappers add the precondition as an
 * obligation at every call site in the verified sources. */
#define VERIF_CT(name) static inline int verif_##name(int c) { \
    __CPROVER_precondition(c == -1 || (c >= 0 && c <= 255), "ctype argument is EOF or an unsigned char value"); return name(c); }
VERIF_CT(isdigit) VERIF_CT(isalpha) VERIF_CT(isalnum) VERIF_CT(isxdigit) VERIF_CT(isspace) VERIF_CT(islower) VERIF_CT(isupper) VERIF_CT(tolower) VERIF_CT(toupper)
#define isdigit(c) verif_isdigit(c)
#define isalpha(c) verif_isalpha(c)
#define isalnum(c) verif_isalnum(c)
#define isxdigit(c) verif_isxdigit(c)
#define isspace(c) verif_isspace(c)
#define islower(c) verif_islower(c)
#define isupper(c) verif_isupper(c)
#define tolower(c) verif_tolower(c)
#define toupper(c) verif_toupper(c)
#include "scpi/config.h"
#include "scpi/types.h"
#include "scpi/ieee488.h"
#include "scpi/error.h"
#include "scpi/constants.h"

#define OFF(p) ((long)__CPROVER_POINTER_OFFSET(p))
#define SAME(p, q) __CPROVER_same_object((p), (q))
#define OLD(e) __CPROVER_old(e)
#define RET __CPROVER_return_value
/* CBMC models an enum without negative enumerators as signed int, GCC as unsigned int: inputs of
 * enum type are restricted to the values on which both agree (listed as an assumption). */
#define ENUM_OK(e) ((int)(e) >= 0)
#define REACH(tag) __CPROVER_assert(0, "reach:" tag)

/* nondet sources (names must start with nondet_).  Every call goes through a recording wrapper: the value lands in a
 * local named nd_rec, which the runner reads back from a counterexample in call order (native replay of harness jobs). */
#define ND_SRC(T, name) T nondet_raw_##name(void); static inline T nondet_##name(void) { T nd_rec = nondet_raw_##name(); return nd_rec; }
ND_SRC(int, int)
ND_SRC(unsigned, uint)
ND_SRC(long, long)
ND_SRC(unsigned long, ulong)
ND_SRC(unsigned long long, u64)
ND_SRC(unsigned short, u16)
ND_SRC(short, i16)
ND_SRC(unsigned char, u8)
ND_SRC(signed char, i8)
ND_SRC(char, char)
ND_SRC(_Bool, bool)
ND_SRC(size_t, size)
ND_SRC(double, double)
ND_SRC(float, float)
void *nondet_ptr(void);

/* ------------------------------------------------------------------------------------
 * 2.1 lexer cursor
 * ---------------------------------------------------------------------------------- */
#ifndef LEXMAX
#define LEXMAX 1000000
#endif

/* precondition form (creates the objects when enforced, checks them when a call is replaced) */
#define LEX_PRE(s) \
    (__CPROVER_is_fresh((s), sizeof(*(s))) && (s)->len >= 0 && (s)->len <= LEXMAX \
     && __CPROVER_is_fresh((s)->buffer, (s)->len + 1) \
     && __CPROVER_pointer_in_range_dfcc((s)->buffer, (s)->pos, (s)->buffer + (s)->len))

/* invariant form (no calls, usable in loop invariants and ensures) */
#define LEX_INV(s) \
    (SAME((s)->pos, (s)->buffer) && OFF((s)->pos) >= OFF((s)->buffer) \
     && OFF((s)->pos) <= OFF((s)->buffer) + (s)->len)

/* loop-invariant building blocks for cursor loops (text injected by tools/annotate.py) */
#define LOOP_CURSOR(s) (LEX_INV(s) && OFF((s)->pos) >= OFF(__CPROVER_loop_entry((s)->pos)))
#define LOOP_DISP(s) (OFF((s)->pos) - OFF(__CPROVER_loop_entry((s)->pos)))
#define LOOP_CONSUMED(s) ((long) gh_li >= OFF(__CPROVER_loop_entry((s)->pos)) - OFF((s)->buffer) && (long) gh_li < OFF((s)->pos) - OFF((s)->buffer))
#define LOOP_FIRST(s) ((s)->buffer[OFF(__CPROVER_loop_entry((s)->pos)) - OFF((s)->buffer)])
#define LOOP_REMAIN(s) (OFF((s)->buffer) + (s)->len - OFF((s)->pos))
#define LEX_END(s) ((s)->buffer + (s)->len)
#define LEX_ATEND(s) (OFF((s)->pos) == OFF((s)->buffer) + (s)->len)

/* ------------------------------------------------------------------------------------
 * 2.3 ghost output / error / control observers.  The interface callbacks are specified by
 * these contracts; the library is verified against every implementation that obeys them.
 * ---------------------------------------------------------------------------------- */
extern size_t gh_out_len;        /* bytes written so far */
extern size_t gh_out_calls;      /* write calls so far */
extern size_t gh_watch;          /* witness: absolute output position being watched */
extern char gh_watch_val;        /* byte written at position gh_watch (valid when gh_out_len > gh_watch) */
extern char gh_out_last;         /* last byte written */
extern char gh_out_first;        /* first byte of the most recent write call */
extern const char *gh_last_data; /* data pointer of the most recent write call */
extern size_t gh_last_len;       /* len of the most recent write call */
extern unsigned gh_flushes;
extern unsigned gh_err_n;             /* error callback invocations */
extern int gh_err_last;
extern unsigned gh_srq_n;             /* control(SRQ) invocations */
extern unsigned gh_srq_val;
extern unsigned gh_reset_n;
extern char *gh_buf; extern size_t gh_buflen; /* the input buffer object, for contracts that speak about tokens inside it */
extern int gh_case;           /* proof-split selector set by harnesses; 0 = no restriction */

size_t write_contract(scpi_t *context, const char *data, size_t len)
__CPROVER_requires(len > 0 && data != NULL && __CPROVER_r_ok(data, len))
/* the byte counter is unsigned and may wrap; the watched-position clauses speak only about runs that have emitted less than 2^62 bytes */
__CPROVER_assigns(gh_out_len, gh_out_calls, gh_watch_val, gh_out_last, gh_out_first, gh_last_data, gh_last_len)
__CPROVER_ensures(RET == len)
__CPROVER_ensures(gh_out_len == OLD(gh_out_len) + len && gh_out_calls == OLD(gh_out_calls) + 1)
__CPROVER_ensures(gh_out_last == data[len - 1] && gh_out_first == data[0])
__CPROVER_ensures(gh_last_data == data && gh_last_len == len)
__CPROVER_ensures((OLD(gh_out_len) <= (1ul << 62) && len <= (1ul << 32) && gh_watch >= OLD(gh_out_len) && gh_watch < gh_out_len) ==> gh_watch_val == data[gh_watch - OLD(gh_out_len)])
__CPROVER_ensures((OLD(gh_out_len) <= (1ul << 62) && len <= (1ul << 32) && !(gh_watch >= OLD(gh_out_len) && gh_watch < gh_out_len)) ==> gh_watch_val == OLD(gh_watch_val))
;

scpi_result_t flush_contract(scpi_t *context)
__CPROVER_assigns(gh_flushes)
__CPROVER_ensures(gh_flushes == OLD(gh_flushes) + 1)
;

int error_contract(scpi_t *context, int_fast16_t error)
__CPROVER_assigns(gh_err_n, gh_err_last)
__CPROVER_ensures(gh_err_n == OLD(gh_err_n) + 1 && gh_err_last == error)
;

scpi_result_t control_contract(scpi_t *context, scpi_ctrl_name_t ctrl, scpi_reg_val_t val)
/* C12: the service-request callback is never invoked while MSS is 0 */
__CPROVER_requires(ctrl == SCPI_CTRL_SRQ ==> (val & STB_SRQ) != 0)
__CPROVER_assigns(gh_srq_n, gh_srq_val)
__CPROVER_ensures(gh_srq_n == OLD(gh_srq_n) + 1 && gh_srq_val == val)
;

scpi_result_t reset_contract(scpi_t *context)
__CPROVER_assigns(gh_reset_n)
__CPROVER_ensures(gh_reset_n == OLD(gh_reset_n) + 1)
;

/* interface object: every callback is NULL or obeys its contract */
#define IFACE_PRE(c) \
    (__CPROVER_is_fresh((c)->interface, sizeof(*(c)->interface)) \
     && ((c)->interface->write != NULL && __CPROVER_obeys_contract((c)->interface->write, write_contract)) \
     && ((c)->interface->flush == NULL || __CPROVER_obeys_contract((c)->interface->flush, flush_contract)) \
     && ((c)->interface->error == NULL || __CPROVER_obeys_contract((c)->interface->error, error_contract)) \
     && ((c)->interface->control == NULL || __CPROVER_obeys_contract((c)->interface->control, control_contract)) \
     && ((c)->interface->reset == NULL || __CPROVER_obeys_contract((c)->interface->reset, reset_contract)))

/* output budget: a function of level L may be called while the ghost byte/call counters are below
 * 2^(62-L); it emits far less than 2^(61-L), so its callees' level-(L-1) preconditions hold. */
#define OUT_LEVEL(L) 1   /* (historical: output budget levels; no longer needed since the counters may wrap) */
#define GHOST_OUT gh_out_len, gh_out_calls, gh_watch_val, gh_out_last, gh_out_first, gh_last_data, gh_last_len
#define GHOST_ERRCB gh_err_n, gh_err_last
#define GHOST_SRQ gh_srq_n, gh_srq_val

/* keep the addresses of the contract functions taken (needed by obeys_contract) */
#define KEEP_CALLBACK_CONTRACTS \
    scpi_write_t keep_w = write_contract; scpi_command_callback_t keep_f = flush_contract; \
    scpi_error_callback_t keep_e = error_contract; scpi_write_control_t keep_c = control_contract; \
    scpi_command_callback_t keep_r = reset_contract; \
    (void)keep_w; (void)keep_f; (void)keep_e; (void)keep_c; (void)keep_r

/* ------------------------------------------------------------------------------------
 * status registers (C11 / C12)
 * ---------------------------------------------------------------------------------- */
#define R(c, n) ((c)->registers[n])
#define BITEQ(reg, bit, cond) ((((reg) & (bit)) != 0) == ((cond) != 0))
/* summary bits of the status byte agree with the registers behind them, MSS agrees with STB & SRE */
#define COH_REGS(c) ( \
    BITEQ(R(c, SCPI_REG_STB), STB_ESR, R(c, SCPI_REG_ESR) & R(c, SCPI_REG_ESE)) && \
    BITEQ(R(c, SCPI_REG_STB), STB_OPS, R(c, SCPI_REG_OPER) & R(c, SCPI_REG_OPERE)) && \
    BITEQ(R(c, SCPI_REG_STB), STB_QES, R(c, SCPI_REG_QUES) & R(c, SCPI_REG_QUESE)) && \
    BITEQ(R(c, SCPI_REG_STB), STB_SRQ, R(c, SCPI_REG_STB) & ~STB_SRQ & R(c, SCPI_REG_SRE)))
#define COH_QMA(c) BITEQ(R(c, SCPI_REG_STB), STB_QMA, (c)->error_queue.count > 0)

/* ------------------------------------------------------------------------------------
 * error queue representation invariant (C10)
 * ---------------------------------------------------------------------------------- */
/* ring index without division: for 0 <= x < 2*size, WRAPQ(f,x) == x % size */
#define WRAPQ(f, x) ((int)(x) >= (int)(f)->size ? (int)(x) - (int)(f)->size : (int)(x))
#ifndef QMAXSZ
#define QMAXSZ 32767
#endif
#define QINV(f) ((f)->size >= 1 && (f)->size <= QMAXSZ && (f)->rd >= 0 && (f)->rd < (f)->size && (f)->wr >= 0 && (f)->wr < (f)->size \
    && (f)->count >= 0 && (f)->count <= (f)->size && (f)->wr == WRAPQ(f, (int)(f)->rd + (int)(f)->count))
#define QPRE(f) (QINV(f) && __CPROVER_is_fresh((f)->data, sizeof(scpi_error_t) * (size_t)(f)->size))
/* k-th oldest entry, 0 <= k < size */
#define QVIEW(f, k) ((f)->data[WRAPQ(f, (int)(f)->rd + ((int)(k) >= 0 && (int)(k) < (int)(f)->size ? (int)(k) : 0))])

#endif
