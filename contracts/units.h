/* Contracts for libscpi/src/units.c formatting (C15). */
#ifndef VERIF_UNITS_H
#define VERIF_UNITS_H
#include "result.h"
#include "libc.h"
#ifndef NTS_MAXLEN
#define NTS_MAXLEN 28
#endif
#include "scpi/units.h"

/* ASSUMED: abstraction of the table lookups used only at the call sites in SCPI_NumberToStr: the result is NULL or some
 * NUL-terminated text of at most 7 (unit) / 9 (special name) characters; that the real tables have names of at
 * most that length is proved by units.names (full unwinding over the real tables) */
static const char * translateUnitInverse(const scpi_unit_def_t * units, const scpi_unit_t unit)
__CPROVER_requires(units == NULL || units == scpi_units_def)
__CPROVER_requires(ENUM_OK(unit))
__CPROVER_assigns()
__CPROVER_ensures(RET == NULL || (__CPROVER_is_fresh(RET, 8) && RET[7] == 0))
;
/* first name with this tag; special-number names are at most 9 characters */
scpi_bool_t SCPI_ChoiceToName(const scpi_choice_def_t * options, int32_t tag, const char ** text)
__CPROVER_requires(options == scpi_special_numbers_def && __CPROVER_is_fresh(text, sizeof(*text)))
__CPROVER_assigns(*text)
__CPROVER_ensures(RET ==> (__CPROVER_is_fresh(*text, 10) && (*text)[9] == 0))
;
/* C15: writes at most len bytes, NUL-terminated, returns the length of what it wrote */
size_t SCPI_NumberToStr(scpi_t * context, const scpi_choice_def_t * special, scpi_number_t * value, char * str, size_t len)
__CPROVER_requires(__CPROVER_is_fresh(context, sizeof(*context)) && (context->units == NULL || context->units == scpi_units_def))
__CPROVER_requires(special == scpi_special_numbers_def)
__CPROVER_requires(value == NULL || (__CPROVER_is_fresh(value, sizeof(*value)) && ENUM_OK(value->unit)))
__CPROVER_requires(len <= NTS_MAXLEN && (str == NULL || len == 0 || __CPROVER_is_fresh(str, len)))
__CPROVER_assigns(gh_trunc, gh_fmt_need; (str != NULL && len > 0): __CPROVER_object_upto(str, len))
__CPROVER_ensures((value == NULL || str == NULL || len == 0) ==> RET == 0)
__CPROVER_ensures((value != NULL && str != NULL && len > 0) ==> (RET < len && str[RET] == 0))
;
#endif
