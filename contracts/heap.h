/* Contracts for the allocation-free error-text heap in libscpi/src/utils.c (C20, C01), configuration
 * -DUSE_MEMORY_ALLOCATION_FREE=0.  The heap is a ring of `size` bytes; free bytes are NUL. */
#ifndef VERIF_HEAP_H
#define VERIF_HEAP_H
#include "common.h"
#include "libc.h"
#include "utils_private.h"
#define HEAPMAX 100000
#define HINV(h) ((h)->size >= 1 && (h)->size <= HEAPMAX && (h)->wr < (h)->size && (h)->count <= (h)->size)
#define HPRE(h) (__CPROVER_is_fresh((h), sizeof(*(h))) && HINV(h) && __CPROVER_is_fresh((h)->data, (h)->size))

void scpiheap_init(scpi_error_info_heap_t * heap, char * error_info_heap, size_t error_info_heap_length)
__CPROVER_requires(__CPROVER_is_fresh(heap, sizeof(*heap)) && error_info_heap_length >= 1 && error_info_heap_length <= 64
    && __CPROVER_is_fresh(error_info_heap, error_info_heap_length))
__CPROVER_assigns(*heap, __CPROVER_object_upto(error_info_heap, error_info_heap_length))
__CPROVER_ensures(heap->data == error_info_heap && heap->wr == 0 && heap->size == error_info_heap_length && heap->count == heap->size)
__CPROVER_ensures(gh_w < error_info_heap_length ==> error_info_heap[gh_w] == 0)
;

/* store a copy of the first strnlen(s,n) bytes of s, NUL-terminated, possibly wrapped around the end;
 * or refuse (NULL) and change nothing.  s is given as exactly n readable bytes, which is all that
 * strndup - the function this replaces - may read. */
char * scpiheap_strndup(scpi_error_info_heap_t * heap, const char *s, size_t n)
__CPROVER_requires(HPRE(heap))
__CPROVER_requires(s == NULL || (n >= 1 && n <= HEAPMAX && __CPROVER_is_fresh(s, n)))
__CPROVER_assigns(heap->wr, heap->count, __CPROVER_object_whole(heap->data))
__CPROVER_ensures(HINV(heap) && heap->size == OLD(heap->size) && heap->data == OLD(heap->data))
/* refused: nothing changes */
__CPROVER_ensures(RET == NULL ==> (heap->wr == OLD(heap->wr) && heap->count == OLD(heap->count) && (gh_w < heap->size ==> heap->data[gh_w] == OLD(heap->data[gh_w < heap->size ? gh_w : 0]))))
/* stored: starts at the old write position, uses len+1 <= old count bytes */
__CPROVER_ensures(RET != NULL ==> (RET == heap->data + OLD(heap->wr) && heap->count < OLD(heap->count) && OLD(heap->count) - heap->count <= n + 1
    && heap->wr == (OLD(heap->wr) + (OLD(heap->count) - heap->count)) % heap->size))
/* text integrity: byte k of the stored text is byte k of s, and the byte after the text is NUL */
/* (stated separately for the part before and the part after the wrap-around, each with the witness gh_w) */
#define H_TEXTLEN (OLD(heap->count) - heap->count - 1)
#define H_FIRST (H_TEXTLEN < heap->size - OLD(heap->wr) ? H_TEXTLEN : heap->size - OLD(heap->wr))
__CPROVER_ensures((RET != NULL && gh_w < H_FIRST) ==> heap->data[OLD(heap->wr) + gh_w] == s[gh_w < n ? gh_w : 0])
__CPROVER_ensures((RET != NULL && gh_w < H_TEXTLEN - H_FIRST) ==> heap->data[gh_w] == s[H_FIRST + gh_w < n ? H_FIRST + gh_w : 0])
__CPROVER_ensures(RET != NULL ==> H_TEXTLEN <= n)
__CPROVER_ensures(RET != NULL ==> heap->data[(heap->wr + heap->size - 1) % heap->size] == 0)
/* nothing outside the allocated bytes changes */
__CPROVER_ensures((RET != NULL && gh_w < heap->size && ((gh_w + heap->size - OLD(heap->wr)) % heap->size) >= OLD(heap->count) - heap->count)
    ==> heap->data[gh_w] == OLD(heap->data[gh_w < heap->size ? gh_w : 0]))
;
#endif
