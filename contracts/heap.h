/* Contracts for the allocation-free error-text heap in libscpi/src/utils.c (C20, C01), configuration
 * -DUSE_MEMORY_ALLOCATION_FREE=0.  The heap is a ring of `size` bytes; free bytes are NUL. */
#ifndef VERIF_HEAP_H
#define VERIF_HEAP_H
#include "common.h"
#include "libc.h"
#include "utils_private.h"
#define HEAPMAX 100000
#define HINV(h) ((h)->size >= 1 && (h)->size <= HEAPMAX && (h)->wr < (h)->size && (h)->count <= (h)->size)
#define HPRE(h) (__CPROVER_is_fresh((h), sizeof(*(h))) && HINV(h) && __CPROVER_is_fresh((h)->data, (h)->size))

void scpiheap_init(scpi_error_info_heap_t * heap, char * error_info_heap, size_t error_info_heap_length)
__CPROVER_requires(__CPROVER_is_fresh(heap, sizeof(*heap)) && error_info_heap_length >= 1 && error_info_heap_length <= 64
    && __CPROVER_is_fresh(error_info_heap, error_info_heap_length))
__CPROVER_assigns(*heap, __CPROVER_object_upto(error_info_heap, error_info_heap_length))
__CPROVER_ensures(heap->data == error_info_heap && heap->wr == 0 && heap->size == error_info_heap_length && heap->count == heap->size)
__CPROVER_ensures(gh_w < error_info_heap_length ==> error_info_heap[gh_w] == 0)
;

/* store a copy of the first strnlen(s,n) bytes of s, NUL-terminated, possibly wrapped around the end;
 * or refuse (NULL) and change nothing.  s is given as exactly n readable bytes, which is all that
 * strndup - the function this replaces - may read. */
char * scpiheap_strndup(scpi_error_info_heap_t * heap, const char *s, size_t n)
__CPROVER_requires(HPRE(heap))
__CPROVER_requires(s == NULL || (n >= 1 && n <= HEAPMAX && __CPROVER_is_fresh(s, n)))
__CPROVER_assigns(heap->wr, heap->count, __CPROVER_object_whole(heap->data))
__CPROVER_ensures(HINV(heap) && heap->size == OLD(heap->size) && heap->data == OLD(heap->data))
/* refused: nothing changes */
__CPROVER_ensures(RET == NULL ==> (heap->wr == OLD(heap->wr) && heap->count == OLD(heap->count) && (gh_w < heap->size ==> heap->data[gh_w] == OLD(heap->data[gh_w < heap->size ? gh_w : 0]))))
/* stored: starts at the old write position, uses len+1 <= old count bytes */
__CPROVER_ensures(RET != NULL ==> (RET == heap->data + OLD(heap->wr) && heap->count < OLD(heap->count) && OLD(heap->count) - heap->count <= n + 1
    && heap->wr == (OLD(heap->wr) + (OLD(heap->count) - heap->count)) % heap->size))
/* text integrity: byte k of the stored text is byte k of s, and the byte after the text is NUL */
/* (stated separately for the part before and the part after the wrap-around, each with the witness gh_w) */
#define H_TEXTLEN (OLD(heap->count) - heap->count - 1)
#define H_FIRST (H_TEXTLEN < heap->size - OLD(heap->wr) ? H_TEXTLEN : heap->size - OLD(heap->wr))
__CPROVER_ensures((RET != NULL && gh_w < H_FIRST) ==> heap->data[OLD(heap->wr) + gh_w] == s[gh_w < n ? gh_w : 0])
__CPROVER_ensures((RET != NULL && gh_w < H_TEXTLEN - H_FIRST) ==> heap->data[gh_w] == s[H_FIRST + gh_w < n ? H_FIRST + gh_w : 0])
__CPROVER_ensures(RET != NULL ==> H_TEXTLEN <= n)
__CPROVER_ensures(RET != NULL ==> heap->data[(heap->wr + heap->size - 1) % heap->size] == 0)
/* nothing outside the allocated bytes changes */
__CPROVER_ensures((RET != NULL && gh_w < heap->size && ((gh_w + heap->size - OLD(heap->wr)) % heap->size) >= OLD(heap->count) - heap->count)
    ==> heap->data[gh_w] == OLD(heap->data[gh_w < heap->size ? gh_w : 0]))
;

/* ---- release ----------------------------------------------------------------------------------
 * s points into the heap.  The ring always contains at least one NUL (every stored text ends in one, free bytes are NUL):
 * witness gh_nulp.  Nothing is assumed about WHICH bytes are allocated, so what is decided here is: no access outside
 * the ring for any content, exactly the bytes of the text at s (up to and including its terminator, following the
 * wrap-around) become NUL and are accounted, nothing else changes.  That count never exceeds size and wr stays inside
 * the ring along real histories is decided by hist.heap.* (bounded). */
#define H_IN(h, s) __CPROVER_pointer_in_range_dfcc((h)->data, (s), (h)->data + ((h)->size - 1))
#define H_HASNUL(h) (__CPROVER_pointer_in_range_dfcc((h)->data, gh_nulp, (h)->data + ((h)->size - 1)) && *gh_nulp == 0)
#define H_NULOFF(h) ((size_t) (OFF(gh_nulp) - OFF((h)->data)))
/* the same as a plain predicate (guards in postconditions; pointer_in_range_dfcc may not appear under an implication there) */
#define H_INX(h, p) (__CPROVER_same_object((p), (h)->data) && OFF(p) >= OFF((h)->data) && (size_t) (OFF(p) - OFF((h)->data)) < (h)->size)
#define H_WOFF(h) ((size_t) (OFF(gh_wp) - OFF((h)->data)))
#define H_SOFF(h, s) ((size_t) (OFF(s) - OFF((h)->data)))
scpi_bool_t scpiheap_get_parts(scpi_error_info_heap_t * heap, const char * s, size_t * len1, const char ** s2, size_t * len2)
__CPROVER_requires(HPRE(heap) && H_HASNUL(heap) && (s == NULL || H_IN(heap, s)))
__CPROVER_requires(__CPROVER_is_fresh(len1, sizeof(*len1)) && __CPROVER_is_fresh(s2, sizeof(*s2)) && __CPROVER_is_fresh(len2, sizeof(*len2)))
__CPROVER_assigns(*len1, *s2, *len2)
__CPROVER_ensures(RET == (s != NULL && s[0] != 0))
/* first part: from s to its NUL or to the end of the ring, never empty */
__CPROVER_ensures(RET ==> (*len1 >= 1 && *len1 <= heap->size - H_SOFF(heap, s)))
__CPROVER_ensures((RET && H_INX(heap, gh_wp) && H_WOFF(heap) >= H_SOFF(heap, s) && H_WOFF(heap) - H_SOFF(heap, s) < *len1) ==> *gh_wp != 0)
__CPROVER_ensures((RET && *len1 < heap->size - H_SOFF(heap, s)) ==> (s[*len1] == 0 && *s2 == NULL && *len2 == 0))
/* second part: only when the first one runs to the last byte of the ring; it ends at the first NUL from the start,
 * which lies before s because the ring contains a NUL */
__CPROVER_ensures((RET && *len1 == heap->size - H_SOFF(heap, s)) ==> (__CPROVER_pointer_in_range_dfcc(heap->data, *s2, heap->data) && *len2 < heap->size && *len2 <= H_NULOFF(heap) && H_NULOFF(heap) < H_SOFF(heap, s) && heap->data[*len2] == 0))
__CPROVER_ensures((RET && *len1 == heap->size - H_SOFF(heap, s) && H_INX(heap, gh_wp) && H_WOFF(heap) < *len2) ==> *gh_wp != 0)
;
#define H_FREED (heap->count - OLD(heap->count))
#define H_CYC(h, i, from) (((i) + (h)->size - (from)) % (h)->size)      /* cyclic distance of byte i from byte `from` */
#define H_REL (s != NULL && OLD(s[0]) != 0)
void scpiheap_free(scpi_error_info_heap_t * heap, char * s, scpi_bool_t rollback)
__CPROVER_requires(HPRE(heap) && H_HASNUL(heap) && (s == NULL || H_IN(heap, s)))
/* ghost tie: the witness byte is some byte of the ring */
__CPROVER_requires(H_IN(heap, gh_wp))
__CPROVER_assigns(heap->wr, heap->count, __CPROVER_object_whole(heap->data))
__CPROVER_ensures(heap->size == OLD(heap->size) && heap->data == OLD(heap->data))
/* nothing to release: nothing changes */
__CPROVER_ensures(!H_REL ==> (heap->wr == OLD(heap->wr) && heap->count == OLD(heap->count) && *gh_wp == OLD(*gh_wp)))
/* released: between 2 and size bytes (text + terminator), all NUL afterwards, everything else untouched */
__CPROVER_ensures(H_REL ==> (H_FREED >= 2 && H_FREED <= heap->size))
__CPROVER_ensures((H_REL && H_CYC(heap, H_WOFF(heap), H_SOFF(heap, s)) < H_FREED) ==> *gh_wp == 0)
__CPROVER_ensures((H_REL && H_CYC(heap, H_WOFF(heap), H_SOFF(heap, s)) >= H_FREED) ==> *gh_wp == OLD(*gh_wp))
/* the released bytes were the text: none of them except the last was NUL before */
__CPROVER_ensures((H_REL && H_CYC(heap, H_WOFF(heap), H_SOFF(heap, s)) + 1 < H_FREED) ==> OLD(*gh_wp) != 0)
/* write position: back to the start once everything is free; otherwise moved back by the released amount iff asked */
__CPROVER_ensures((H_REL && heap->count == heap->size) ==> heap->wr == 0)
__CPROVER_ensures((H_REL && heap->count != heap->size && !rollback) ==> heap->wr == OLD(heap->wr))
__CPROVER_ensures((H_REL && heap->count != heap->size && rollback) ==> heap->wr == (OLD(heap->wr) >= H_FREED ? OLD(heap->wr) - H_FREED : OLD(heap->wr) + heap->size - H_FREED))
;
#endif
