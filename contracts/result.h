/* Contracts for the SCPI_Result* family in libscpi/src/parser.c (C06 item framing, C17 blocks,
 * C07/C15 buffer sizes) and for the formatter functions they call. */
#ifndef VERIF_RESULT_H
#define VERIF_RESULT_H
#include "error.h"

extern int gh_trunc;        /* set by the assumed snprintf-based formatters when the text did not fit */
extern size_t gh_fmt_need;  /* characters the most recent float/double formatting needed */

#define CTX_OUT_PRE_L(c, L) (__CPROVER_is_fresh((c), sizeof(*(c))) && IFACE_PRE(c) && (c)->output_count >= 0 && (c)->output_count < 30000 && OUT_LEVEL(L))
#define CTX_OUT_PRE(c) CTX_OUT_PRE_L(c, 1)
/* bytes written by this call */
#define WROTE (gh_out_len - OLD(gh_out_len))
/* the first byte written by this call, observed through the watch position */
#define WATCH_FIRST (gh_watch == OLD(gh_out_len) && gh_out_len > OLD(gh_out_len) && OLD(gh_out_len) <= (1ul << 61))
#define HAD_ITEMS (OLD(context->output_count) > 0)
/* C06: ',' in front of the item exactly when the unit already has an item; one more item afterwards */
#define ITEM_CLAUSES \
__CPROVER_ensures(context->output_count == OLD(context->output_count) + 1) \
__CPROVER_ensures(RET == WROTE && gh_out_calls - OLD(gh_out_calls) <= 4) \
__CPROVER_ensures(WATCH_FIRST ==> ((gh_watch_val == ',') == HAD_ITEMS)) \
__CPROVER_ensures(HAD_ITEMS ==> WROTE >= 1)

/* ---- formatters (shape contracts used at call sites; full functional proof: jobs fmt.*) ---- */
size_t UInt32ToStrBaseSign(uint32_t val, char * str, size_t len, int8_t base, scpi_bool_t sign)
__CPROVER_requires(len <= 1000 && (len == 0 || __CPROVER_is_fresh(str, len)))
__CPROVER_assigns(len > 0: __CPROVER_object_upto(str, len))
__CPROVER_ensures(RET <= len && (len == 0 || RET >= 1) && (RET < len ==> str[RET] == 0))
__CPROVER_ensures(RET <= 32)
__CPROVER_ensures((RET >= 1) ==> (str[0] != ',' && str[0] != ';' && str[0] != 0 && str[0] != '#'))
;
size_t UInt64ToStrBaseSign(uint64_t val, char * str, size_t len, int8_t base, scpi_bool_t sign)
__CPROVER_requires(len <= 1000 && (len == 0 || __CPROVER_is_fresh(str, len)))
__CPROVER_assigns(len > 0: __CPROVER_object_upto(str, len))
__CPROVER_ensures(RET <= len && (len == 0 || RET >= 1) && (RET < len ==> str[RET] == 0))
__CPROVER_ensures(RET <= 64)
__CPROVER_ensures((RET >= 1) ==> (str[0] != ',' && str[0] != ';' && str[0] != 0 && str[0] != '#'))
;
size_t SCPI_UInt32ToStrBase(uint32_t val, char * str, size_t len, int8_t base)
__CPROVER_requires(len <= 1000 && (len == 0 || __CPROVER_is_fresh(str, len)))
__CPROVER_assigns(len > 0: __CPROVER_object_upto(str, len))
__CPROVER_ensures(RET <= len && (len == 0 || RET >= 1) && (RET < len ==> str[RET] == 0))
/* decimal: at most 10 digits, exactly as many as the value needs */
#define NDIG10_32(v) ((v) >= 1000000000u ? 10 : (v) >= 100000000u ? 9 : (v) >= 10000000u ? 8 : (v) >= 1000000u ? 7 : (v) >= 100000u ? 6 \
    : (v) >= 10000u ? 5 : (v) >= 1000u ? 4 : (v) >= 100u ? 3 : (v) >= 10u ? 2 : 1)
__CPROVER_ensures(base == 10 ==> RET == (len < (size_t) NDIG10_32(val) ? len : (size_t) NDIG10_32(val)))
/* every character produced is a decimal digit (so no NUL inside the text) */
#define DIGK(k) ((k) >= RET || (str[k] >= '0' && str[k] <= '9'))
__CPROVER_ensures(base == 10 ==> (DIGK(0) && DIGK(1) && DIGK(2) && DIGK(3) && DIGK(4) && DIGK(5) && DIGK(6) && DIGK(7) && DIGK(8) && DIGK(9)))
;
/* ASSUMED: libc snprintf("%g"/"%.15lg") behind SCPI_FloatToStr / SCPI_DoubleToStr: writes at most len
 * bytes including the NUL; the text of a float needs at most 13, of a double at most 22 characters
 * ("-1.23456789012345e-300"); if it does not fit it is truncated (gh_trunc). */
size_t SCPI_FloatToStr(float val, char * str, size_t len)
__CPROVER_requires(len >= 1 && len <= 1000 && __CPROVER_is_fresh(str, len))
__CPROVER_assigns(__CPROVER_object_upto(str, len), gh_trunc, gh_fmt_need)
__CPROVER_ensures(gh_fmt_need >= 1 && gh_fmt_need <= 13 && RET == (gh_fmt_need < len ? gh_fmt_need : len - 1) && str[RET] == 0)
__CPROVER_ensures(gh_trunc == (gh_fmt_need >= len))
__CPROVER_ensures(RET >= 1 ==> (str[0] != ',' && str[0] != ';' && str[0] != 0))
;
size_t SCPI_DoubleToStr(double val, char * str, size_t len)
__CPROVER_requires(len >= 1 && len <= 1000 && __CPROVER_is_fresh(str, len))
__CPROVER_assigns(__CPROVER_object_upto(str, len), gh_trunc, gh_fmt_need)
__CPROVER_ensures(gh_fmt_need >= 1 && gh_fmt_need <= 22 && RET == (gh_fmt_need < len ? gh_fmt_need : len - 1) && str[RET] == 0)
__CPROVER_ensures(gh_trunc == (gh_fmt_need >= len))
__CPROVER_ensures(RET >= 1 ==> (str[0] != ',' && str[0] != ';' && str[0] != 0))
;
/* ASSUMED: strlen on a NUL-terminated string (witness gh_nul) */
size_t strlen(const char *s)
__CPROVER_requires(__CPROVER_r_ok(s, gh_nul + 1) && s[gh_nul] == 0)
__CPROVER_assigns()
__CPROVER_ensures(RET <= gh_nul && s[RET] == 0)
__CPROVER_ensures(gh_w < RET ==> s[gh_w < RET ? gh_w : 0] != 0)
;
/* first occurrence in str[0..size) (stopping at a NUL) of a character of set */
char * strnpbrk(const char *str, size_t size, const char *set)
__CPROVER_requires(size <= 1000000000ul && (size == 0 || __CPROVER_r_ok(str, size)))
__CPROVER_requires(set != NULL && __CPROVER_r_ok(set, 2) && set[0] == '"' && set[1] == 0)
__CPROVER_assigns()
__CPROVER_ensures(RET == NULL || (__CPROVER_pointer_in_range_dfcc(str, RET, str + size) && OFF(RET) < OFF(str) + (long) size && RET[0] == '"'))
/* nothing from the set (and no NUL) before the hit; no hit means none up to the first NUL / size */
__CPROVER_ensures((RET != NULL && (long) gh_w < OFF(RET) - OFF(str)) ==> (str[gh_w] != '"' && str[gh_w] != 0))
;

/* ---- items ------------------------------------------------------------------------------ */
size_t SCPI_ResultCharacters(scpi_t * context, const char * data, size_t len)
__CPROVER_requires(CTX_OUT_PRE(context) && len <= 1000000ul && (len == 0 || data == NULL || __CPROVER_is_fresh(data, len)))
__CPROVER_assigns(context->output_count, GHOST_OUT)
__CPROVER_ensures(context->output_count == OLD(context->output_count) + 1)
__CPROVER_ensures(RET == WROTE && gh_out_calls - OLD(gh_out_calls) <= 2)
__CPROVER_ensures((WATCH_FIRST && HAD_ITEMS) ==> gh_watch_val == ',')
__CPROVER_ensures(WROTE == (HAD_ITEMS ? 1 : 0) + (data != NULL ? len : 0))
/* the payload is passed through unchanged */
__CPROVER_ensures((data != NULL && len > 0) ==> (gh_last_data == data && gh_last_len == len))
;
static size_t resultUInt32BaseSign(scpi_t * context, uint32_t val, int8_t base, scpi_bool_t sign)
__CPROVER_requires(CTX_OUT_PRE(context))
__CPROVER_assigns(context->output_count, GHOST_OUT)
ITEM_CLAUSES
__CPROVER_ensures(WROTE >= (HAD_ITEMS ? 2 : 1))
__CPROVER_ensures((WATCH_FIRST && !HAD_ITEMS) ==> (gh_watch_val == '#') == (base == 2 || base == 8 || base == 16))
;
static size_t resultUInt64BaseSign(scpi_t * context, uint64_t val, int8_t base, scpi_bool_t sign)
__CPROVER_requires(CTX_OUT_PRE(context))
__CPROVER_assigns(context->output_count, GHOST_OUT)
ITEM_CLAUSES
__CPROVER_ensures(WROTE >= (HAD_ITEMS ? 2 : 1))
__CPROVER_ensures((WATCH_FIRST && !HAD_ITEMS) ==> (gh_watch_val == '#') == (base == 2 || base == 8 || base == 16))
;
#define INT_ITEM(decl) decl \
__CPROVER_requires(CTX_OUT_PRE_L(context, 2)) \
__CPROVER_assigns(context->output_count, GHOST_OUT) \
ITEM_CLAUSES \
__CPROVER_ensures(WROTE >= (HAD_ITEMS ? 2 : 1)) ;
INT_ITEM(size_t SCPI_ResultInt32(scpi_t * context, int32_t val))
INT_ITEM(size_t SCPI_ResultUInt32Base(scpi_t * context, uint32_t val, int8_t base))
INT_ITEM(size_t SCPI_ResultInt64(scpi_t * context, int64_t val))
INT_ITEM(size_t SCPI_ResultUInt64Base(scpi_t * context, uint64_t val, int8_t base))
INT_ITEM(size_t SCPI_ResultBool(scpi_t * context, scpi_bool_t val))

/* float/double: the local buffer must be large enough for every text the formatter can produce,
 * otherwise the emitted digits are cut and decode to another value (C07) */
size_t SCPI_ResultFloat(scpi_t * context, float val)
__CPROVER_requires(CTX_OUT_PRE(context))
__CPROVER_assigns(context->output_count, GHOST_OUT, gh_trunc, gh_fmt_need)
ITEM_CLAUSES
__CPROVER_ensures(!gh_trunc && WROTE == (HAD_ITEMS ? 1 : 0) + gh_fmt_need)
;
size_t SCPI_ResultDouble(scpi_t * context, double val)
__CPROVER_requires(CTX_OUT_PRE(context))
__CPROVER_assigns(context->output_count, GHOST_OUT, gh_trunc, gh_fmt_need)
ITEM_CLAUSES
__CPROVER_ensures(!gh_trunc && WROTE == (HAD_ITEMS ? 1 : 0) + gh_fmt_need)
;

/* ---- C17 blocks --------------------------------------------------------------------------- */
size_t SCPI_ResultArbitraryBlockHeader(scpi_t * context, size_t len)
__CPROVER_requires(CTX_OUT_PRE(context) && len < 1000000000ul)
__CPROVER_assigns(context->arbitrary_remaining, GHOST_OUT)
__CPROVER_ensures(context->arbitrary_remaining == len && context->output_count == OLD(context->output_count))
__CPROVER_ensures(RET == WROTE && gh_out_calls - OLD(gh_out_calls) <= 2)
/* '#', the digit count, the decimal digits of len */
__CPROVER_ensures(WROTE == (HAD_ITEMS ? 1 : 0) + 2 + (len >= 100000000u ? 9 : len >= 10000000u ? 8 : len >= 1000000u ? 7 : len >= 100000u ? 6
    : len >= 10000u ? 5 : len >= 1000u ? 4 : len >= 100u ? 3 : len >= 10u ? 2 : 1))
__CPROVER_ensures(WATCH_FIRST ==> (gh_watch_val == (HAD_ITEMS ? ',' : '#')))
;
size_t SCPI_ResultArbitraryBlockData(scpi_t * context, const void * data, size_t len)
__CPROVER_requires(CTX_OUT_PRE(context) && CTX_ERRQ_OK(context) && len <= 1000000000ul && (len == 0 || data == NULL || __CPROVER_is_fresh(data, len)))
__CPROVER_assigns(context->arbitrary_remaining, context->output_count, GHOST_OUT, ERRPUSH_FRAME(context))
__CPROVER_ensures(CTX_ERR_POST(context))
/* more than announced: refused with -310, nothing written, accounting untouched */
__CPROVER_ensures(len > OLD(context->arbitrary_remaining) ==> (RET == 0 && WROTE == 0 && context->arbitrary_remaining == OLD(context->arbitrary_remaining)
    && context->output_count == OLD(context->output_count) && PUSHED_ONE(context, SCPI_ERROR_SYSTEM_ERROR) && gh_out_calls == OLD(gh_out_calls)))
/* otherwise passed through, and the block is one item exactly when it is complete */
__CPROVER_ensures(len <= OLD(context->arbitrary_remaining) ==> (context->arbitrary_remaining == OLD(context->arbitrary_remaining) - len
    && context->output_count == OLD(context->output_count) + (context->arbitrary_remaining == 0 ? 1 : 0)
    && WROTE == ((data != NULL) ? len : 0) && RET == WROTE && NO_PUSH(context) && gh_out_calls - OLD(gh_out_calls) <= 1))
/* (the pointer identity is left out for callers that pass the address of a loop-local object: with it CBMC finds the
 * post-havoc copy of such a loop body infeasible, i.e. the caller's loop step would be proved vacuously - see DESIGN 8.9) */
#ifdef BLOCKDATA_NO_PTR_ID
__CPROVER_ensures((len <= OLD(context->arbitrary_remaining) && data != NULL && len > 0) ==> (gh_last_len == len))
#else
__CPROVER_ensures((len <= OLD(context->arbitrary_remaining) && data != NULL && len > 0) ==> (gh_last_data == data && gh_last_len == len))
#endif
/* the bytes written are the caller's bytes (watched position), everything else leaves the watch alone */
__CPROVER_ensures((len <= OLD(context->arbitrary_remaining) && data != NULL && len > 0 && OLD(gh_out_len) <= (1ul << 62) && gh_watch >= OLD(gh_out_len) && gh_watch < OLD(gh_out_len) + len)
    ==> gh_watch_val == ((const char *) data)[gh_watch - OLD(gh_out_len) < len ? gh_watch - OLD(gh_out_len) : 0])
__CPROVER_ensures((OLD(gh_out_len) <= (1ul << 62) && !(len <= OLD(context->arbitrary_remaining) && data != NULL && len > 0 && gh_watch >= OLD(gh_out_len) && gh_watch < OLD(gh_out_len) + len))
    ==> gh_watch_val == OLD(gh_watch_val))
;
size_t SCPI_ResultArbitraryBlock(scpi_t * context, const void * data, size_t len)
__CPROVER_requires(CTX_OUT_PRE_L(context, 2) && CTX_ERRQ_OK(context) && len < 1000000000ul && (len == 0 || __CPROVER_is_fresh(data, len)))
__CPROVER_assigns(context->arbitrary_remaining, context->output_count, GHOST_OUT, ERRPUSH_FRAME(context))
__CPROVER_ensures(CTX_ERR_POST(context))
__CPROVER_ensures(context->arbitrary_remaining == 0 && context->output_count == OLD(context->output_count) + 1 && NO_PUSH(context))
__CPROVER_ensures(gh_out_calls - OLD(gh_out_calls) <= 3)
__CPROVER_ensures(RET == WROTE && WROTE == (HAD_ITEMS ? 1 : 0) + 2 + len + (len >= 100000000u ? 9 : len >= 10000000u ? 8 : len >= 1000000u ? 7 : len >= 100000u ? 6
    : len >= 10000u ? 5 : len >= 1000u ? 4 : len >= 100u ? 3 : len >= 10u ? 2 : 1))
__CPROVER_ensures(len > 0 ==> (gh_last_data == data && gh_last_len == len))
#define BLK_HDR(n) ((HAD_ITEMS ? 1 : 0) + 2 + ((n) >= 100000000u ? 9 : (n) >= 10000000u ? 8 : (n) >= 1000000u ? 7 : (n) >= 100000u ? 6 : (n) >= 10000u ? 5 : (n) >= 1000u ? 4 : (n) >= 100u ? 3 : (n) >= 10u ? 2 : 1))
__CPROVER_ensures(WATCH_FIRST ==> gh_watch_val == (HAD_ITEMS ? ',' : '#'))
__CPROVER_ensures((OLD(gh_out_len) <= (1ul << 60) && gh_watch >= OLD(gh_out_len) + BLK_HDR(len) && gh_watch < gh_out_len)
    ==> gh_watch_val == ((const char *) data)[gh_watch - OLD(gh_out_len) - BLK_HDR(len) < len ? gh_watch - OLD(gh_out_len) - BLK_HDR(len) : 0])
;
#endif
