/* Contracts for libscpi/src/ieee488.c register functions (C11, C12, C01). */
#include "common.h"

/* written from the statements of C11/C12:
 *  - after the call the summary bits and MSS equal their definitions (COH_REGS), given that
 *    they did before (inductive invariant);
 *  - a 0->1 change of a condition bit latches the same bit in the event register;
 *  - no register other than the written one, the event register of a written condition
 *    register, and the status byte changes; in the status byte only ESB/OPS/QES/MSS may change;
 *  - the SRQ callback is invoked with the new status byte when MSS rises 0->1, and only with
 *    MSS set (the latter is control_contract's precondition, asserted at the call).
 */
#define IS_COND(n) ((n) == SCPI_REG_OPERC || (n) == SCPI_REG_QUESC)
#define EVENT_OF(n) ((n) == SCPI_REG_OPERC ? SCPI_REG_OPER : SCPI_REG_QUES)
#define WRITABLE(n) ((n) == SCPI_REG_SRE || (n) == SCPI_REG_ESR || (n) == SCPI_REG_ESE || (n) == SCPI_REG_OPER \
    || (n) == SCPI_REG_OPERE || (n) == SCPI_REG_OPERC || (n) == SCPI_REG_QUES || (n) == SCPI_REG_QUESE || (n) == SCPI_REG_QUESC)
#define UNCH(c, n) (R(c, n) == OLD(R(c, n)))
#define STB_SUMMARY (STB_ESR | STB_OPS | STB_QES | STB_SRQ)

#define CTX_REGS_PRE(c) \
    (__CPROVER_is_fresh((c), sizeof(*(c))) && ((c)->interface == NULL || \
      (__CPROVER_is_fresh((c)->interface, sizeof(*(c)->interface)) && \
       ((c)->interface->control == NULL || __CPROVER_obeys_contract((c)->interface->control, control_contract)) && \
       ((c)->interface->error == NULL || __CPROVER_obeys_contract((c)->interface->error, error_contract)))))

void SCPI_RegSet(scpi_t * context, scpi_reg_name_t name, scpi_reg_val_t val)
__CPROVER_requires(CTX_REGS_PRE(context))
__CPROVER_requires(WRITABLE(name))
__CPROVER_requires(COH_REGS(context))
__CPROVER_requires(gh_srq_n >= 0 && gh_srq_n < 1000)
__CPROVER_assigns(__CPROVER_object_whole(context->registers), GHOST_SRQ)
/* C11 */
__CPROVER_ensures(COH_REGS(context))
/* written register holds the value */
__CPROVER_ensures(R(context, name) == val)
/* C12 latch: event' = event | (val & ~old condition) */
__CPROVER_ensures(name == SCPI_REG_OPERC ==> R(context, SCPI_REG_OPER) == (OLD(R(context, SCPI_REG_OPER)) | (val & ~OLD(R(context, SCPI_REG_OPERC)))))
__CPROVER_ensures(name == SCPI_REG_QUESC ==> R(context, SCPI_REG_QUES) == (OLD(R(context, SCPI_REG_QUES)) | (val & ~OLD(R(context, SCPI_REG_QUESC)))))
/* frame over the whole register file */
__CPROVER_ensures(name == SCPI_REG_SRE || UNCH(context, SCPI_REG_SRE))
__CPROVER_ensures(name == SCPI_REG_ESR || UNCH(context, SCPI_REG_ESR))
__CPROVER_ensures(name == SCPI_REG_ESE || UNCH(context, SCPI_REG_ESE))
__CPROVER_ensures(name == SCPI_REG_OPER || name == SCPI_REG_OPERC || UNCH(context, SCPI_REG_OPER))
__CPROVER_ensures(name == SCPI_REG_OPERE || UNCH(context, SCPI_REG_OPERE))
__CPROVER_ensures(name == SCPI_REG_OPERC || UNCH(context, SCPI_REG_OPERC))
__CPROVER_ensures(name == SCPI_REG_QUES || name == SCPI_REG_QUESC || UNCH(context, SCPI_REG_QUES))
__CPROVER_ensures(name == SCPI_REG_QUESE || UNCH(context, SCPI_REG_QUESE))
__CPROVER_ensures(name == SCPI_REG_QUESC || UNCH(context, SCPI_REG_QUESC))
__CPROVER_ensures((R(context, SCPI_REG_STB) & ~STB_SUMMARY) == (OLD(R(context, SCPI_REG_STB)) & ~STB_SUMMARY))
/* C12 service request */
__CPROVER_ensures(((OLD(R(context, SCPI_REG_STB)) & STB_SRQ) == 0 && (R(context, SCPI_REG_STB) & STB_SRQ) != 0
                   && context->interface != NULL && context->interface->control != NULL)
                  ==> (gh_srq_n == OLD(gh_srq_n) + 1 && gh_srq_val == R(context, SCPI_REG_STB)))
__CPROVER_ensures(gh_srq_n == OLD(gh_srq_n) || (gh_srq_n == OLD(gh_srq_n) + 1 && (gh_srq_val & STB_SRQ) != 0 && gh_srq_val == R(context, SCPI_REG_STB)))
;
