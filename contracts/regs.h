/* Contracts for libscpi/src/ieee488.c register functions (C11, C12, C01). */
#ifndef VERIF_REGS_H
#define VERIF_REGS_H
#include "common.h"

/* written from the statements of C11/C12:
 *  - after the call the summary bits and MSS equal their definitions (COH_REGS), given that
 *    they did before (inductive invariant);
 *  - a 0->1 change of a condition bit latches the same bit in the event register;
 *  - no register other than the written one, the event register of a written condition
 *    register, and the status byte changes; in the status byte only ESB/OPS/QES/MSS may change;
 *  - the SRQ callback is invoked with the new status byte when MSS rises 0->1, and only with
 *    MSS set (the latter is control_contract's precondition, asserted at the call).
 * A direct write to the status byte (used by the library only for the QMA bit) stores the
 * value and recomputes MSS; it keeps coherence iff it leaves the three summary bits alone. */
#define REGS_ALL(c) (c)->registers[0], (c)->registers[1], (c)->registers[2], (c)->registers[3], (c)->registers[4], (c)->registers[5], (c)->registers[6], (c)->registers[7], (c)->registers[8], (c)->registers[9]
#define UNCH(c, n) (R(c, n) == OLD(R(c, n)))
#define STB_SUM3 (STB_ESR | STB_OPS | STB_QES)
#define STB_SUMMARY (STB_SUM3 | STB_SRQ)

#define CTX_REGS_PRE(c) \
    (__CPROVER_is_fresh((c), sizeof(*(c))) && ((c)->interface == NULL || \
      (__CPROVER_is_fresh((c)->interface, sizeof(*(c)->interface)) && \
       ((c)->interface->control == NULL || __CPROVER_obeys_contract((c)->interface->control, control_contract)) && \
       ((c)->interface->error == NULL || __CPROVER_obeys_contract((c)->interface->error, error_contract)))))
#define HAS_CONTROL(c) ((c)->interface != NULL && (c)->interface->control != NULL)

#define REGSET_CLAUSES(context, name, VAL) \
__CPROVER_requires(CTX_REGS_PRE(context)) \
__CPROVER_requires(ENUM_OK(name)) \
__CPROVER_requires(COH_REGS(context)) \
__CPROVER_assigns(REGS_ALL(context), GHOST_SRQ) \
/* out of range: nothing happens */ \
__CPROVER_ensures(name >= SCPI_REG_COUNT ==> (UNCH(context, SCPI_REG_STB) && UNCH(context, SCPI_REG_SRE) && UNCH(context, SCPI_REG_ESR) && UNCH(context, SCPI_REG_ESE) \
    && UNCH(context, SCPI_REG_OPER) && UNCH(context, SCPI_REG_OPERE) && UNCH(context, SCPI_REG_OPERC) && UNCH(context, SCPI_REG_QUES) && UNCH(context, SCPI_REG_QUESE) && UNCH(context, SCPI_REG_QUESC) && gh_srq_n == OLD(gh_srq_n))) \
/* C11 */ \
__CPROVER_ensures((name != SCPI_REG_STB || ((VAL) & STB_SUM3) == (OLD(R(context, SCPI_REG_STB)) & STB_SUM3)) ==> COH_REGS(context)) \
__CPROVER_ensures(BITEQ(R(context, SCPI_REG_STB), STB_SRQ, R(context, SCPI_REG_STB) & ~STB_SRQ & R(context, SCPI_REG_SRE))) \
/* written register holds the value */ \
__CPROVER_ensures((name < SCPI_REG_COUNT && name != SCPI_REG_STB) ==> R(context, name < SCPI_REG_COUNT ? name : 0) == (scpi_reg_val_t)(VAL)) \
__CPROVER_ensures(name == SCPI_REG_STB ==> (R(context, SCPI_REG_STB) & ~STB_SRQ) == ((scpi_reg_val_t)(VAL) & ~STB_SRQ)) \
/* C12 latch: event' = event | (val & ~old condition) */ \
__CPROVER_ensures(name == SCPI_REG_OPERC ==> R(context, SCPI_REG_OPER) == (OLD(R(context, SCPI_REG_OPER)) | ((scpi_reg_val_t)(VAL) & ~OLD(R(context, SCPI_REG_OPERC))))) \
__CPROVER_ensures(name == SCPI_REG_QUESC ==> R(context, SCPI_REG_QUES) == (OLD(R(context, SCPI_REG_QUES)) | ((scpi_reg_val_t)(VAL) & ~OLD(R(context, SCPI_REG_QUESC))))) \
/* frame over the whole register file */ \
__CPROVER_ensures(name == SCPI_REG_SRE || UNCH(context, SCPI_REG_SRE)) \
__CPROVER_ensures(name == SCPI_REG_ESR || UNCH(context, SCPI_REG_ESR)) \
__CPROVER_ensures(name == SCPI_REG_ESE || UNCH(context, SCPI_REG_ESE)) \
__CPROVER_ensures(name == SCPI_REG_OPER || name == SCPI_REG_OPERC || UNCH(context, SCPI_REG_OPER)) \
__CPROVER_ensures(name == SCPI_REG_OPERE || UNCH(context, SCPI_REG_OPERE)) \
__CPROVER_ensures(name == SCPI_REG_OPERC || UNCH(context, SCPI_REG_OPERC)) \
__CPROVER_ensures(name == SCPI_REG_QUES || name == SCPI_REG_QUESC || UNCH(context, SCPI_REG_QUES)) \
__CPROVER_ensures(name == SCPI_REG_QUESE || UNCH(context, SCPI_REG_QUESE)) \
__CPROVER_ensures(name == SCPI_REG_QUESC || UNCH(context, SCPI_REG_QUESC)) \
__CPROVER_ensures(name == SCPI_REG_STB || (R(context, SCPI_REG_STB) & ~STB_SUMMARY) == (OLD(R(context, SCPI_REG_STB)) & ~STB_SUMMARY)) \
/* C12 service request */ \
__CPROVER_ensures(((OLD(R(context, SCPI_REG_STB)) & STB_SRQ) == 0 && (R(context, SCPI_REG_STB) & STB_SRQ) != 0 && HAS_CONTROL(context)) \
                  ==> (gh_srq_n == OLD(gh_srq_n) + 1 && gh_srq_val == R(context, SCPI_REG_STB))) \
__CPROVER_ensures(gh_srq_n == OLD(gh_srq_n) || (gh_srq_n == OLD(gh_srq_n) + 1 && (gh_srq_val & STB_SRQ) != 0 && gh_srq_val == R(context, SCPI_REG_STB)))

void SCPI_RegSet(scpi_t * context, scpi_reg_name_t name, scpi_reg_val_t val)
REGSET_CLAUSES(context, name, val)
;
void SCPI_RegSetBits(scpi_t * context, scpi_reg_name_t name, scpi_reg_val_t bits)
__CPROVER_requires(name < SCPI_REG_COUNT)
REGSET_CLAUSES(context, name, (OLD(R(context, name)) | bits))
;
void SCPI_RegClearBits(scpi_t * context, scpi_reg_name_t name, scpi_reg_val_t bits)
__CPROVER_requires(name < SCPI_REG_COUNT)
REGSET_CLAUSES(context, name, (OLD(R(context, name)) & ~bits))
;
scpi_reg_val_t SCPI_RegGet(scpi_t * context, scpi_reg_name_t name)
__CPROVER_requires(context == NULL || __CPROVER_is_fresh(context, sizeof(*context)))
__CPROVER_requires(ENUM_OK(name))
__CPROVER_assigns()
__CPROVER_ensures(RET == ((name < SCPI_REG_COUNT && context != NULL) ? R(context, name < SCPI_REG_COUNT ? name : 0) : 0))
;
#endif
