/* Contracts for libscpi/src/lexer.c (C13 shape layer, C01, C05, C07).
 * Every recogniser: cursor stays inside [buffer, buffer+len], never moves backwards over the
 * call, rolls back completely on rejection, and reports type/extent/length that agree with
 * what it consumed.  Character-class content is stated through the witness index gh_li
 * (an arbitrary fixed buffer index), local maximality through the byte at the cursor. */
#ifndef VERIF_LEXER_H
#define VERIF_LEXER_H
#include "common.h"
#include "lexer_private.h"

extern size_t gh_li; /* witness: index into state->buffer */
/* Character-class CONTENT of the consumed range (witness clauses) is expensive for the back end on
 * 10^6-byte symbolic buffers; it is enforced in the thorough tier (-DLEX_CONTENT) and, for every
 * tier, by the bounded language-equivalence jobs.  Shape, extent, rollback, first/last byte and
 * local maximality are enforced always. */
/* Clauses about individual BYTES of the input (first/last byte of a token, the byte at the cursor)
 * are part of every recogniser's enforced contract (lexer jobs define LEX_BYTES).  Callers that only
 * need extents and types use the same contracts with these clauses left out - a weaker, hence
 * still valid, contract - because every byte read at a symbolic index of the 10^6-byte input costs
 * the back end dearly. */
#ifdef LEX_BYTES
#define BYTE_ENS(e) __CPROVER_ensures(e)
#else
#define BYTE_ENS(e)
#endif
#ifdef LEX_CONTENT
#define CONTENT_ENS(e) __CPROVER_ensures(e)
#define LOOP_CONTENT(e) && (e)
#else
#define CONTENT_ENS(e)
#define LOOP_CONTENT(e)
#endif

#define ISWS(c) ((c) == ' ' || (c) == '\t')
#define ISDIG(c) ((c) >= '0' && (c) <= '9')
#define ISALPHA(c) (((c) >= 'A' && (c) <= 'Z') || ((c) >= 'a' && (c) <= 'z'))
#define ISALNUM(c) (ISALPHA(c) || ISDIG(c))
#define ISMNE(c) (ISALNUM(c) || (c) == '_')
#define ISXDIG(c) (ISDIG(c) || ((c) >= 'A' && (c) <= 'F') || ((c) >= 'a' && (c) <= 'f'))
#define ISODIG(c) ((c) >= '0' && (c) <= '7')
#define ISBDIG(c) ((c) == '0' || (c) == '1')
#define ISEXPR(c) ((c) >= 0x20 && (c) <= 0x7e && (c) != '"' && (c) != '#' && (c) != '\'' && (c) != '(' && (c) != ')' && (c) != ';')

#define IDX(s, p) (OFF(p) - OFF((s)->buffer))            /* buffer index of pointer p */
#define POS0(s) OLD((s)->pos)
#define DISP(s) (OFF((s)->pos) - OFF(POS0(s)))           /* cursor displacement over the call */
/* cursor never moves backwards over a call and stays inside the input.  Written with
 * pointer_in_range_dfcc so that a caller which uses the contract instead of the body still
 * knows WHICH object the cursor points into (a plain offset comparison loses that). */
#define MONO(s) __CPROVER_pointer_in_range_dfcc(POS0(s), (s)->pos, LEX_END(s))
#define PTR_IS(p, q) __CPROVER_pointer_in_range_dfcc((q), (p), (q))
/* witness gh_li lies in the consumed range [old pos, pos) */
#define CONSUMED(s) ((long) gh_li >= IDX(s, POS0(s)) && (long) gh_li < IDX(s, (s)->pos))
#define NEXT_NOT(s, CLASS) (LEX_ATEND(s) || !CLASS((s)->pos[0]))

/* ---- runs of one character class ------------------------------------------------------ */
#define RUN_CONTRACT(name, CLASS) RUN_CONTRACT_(name, CLASS, )
/* with the last-byte clause (needed by skipExponent's content clause; too expensive for the other classes) */
#define RUN_CONTRACT_L(name, CLASS) RUN_CONTRACT_(name, CLASS, CONTENT_ENS(RET > 0 ==> CLASS(state->pos[-1])))
#define RUN_CONTRACT_(name, CLASS, LAST) \
static int name(lex_state_t * state) \
__CPROVER_requires(LEX_PRE(state)) \
__CPROVER_assigns(state->pos) \
__CPROVER_ensures(MONO(state)) \
__CPROVER_ensures(RET == DISP(state)) \
__CPROVER_ensures(NEXT_NOT(state, CLASS)) \
__CPROVER_ensures(RET > 0 ==> CLASS(POS0(state)[0])) \
CONTENT_ENS(CONSUMED(state) ==> CLASS(state->buffer[gh_li])) \
LAST \
;
RUN_CONTRACT(skipWs, ISWS)
RUN_CONTRACT_L(skipNumbers, ISDIG)
RUN_CONTRACT(skipAlpha, ISALPHA)
RUN_CONTRACT(skipHexNum, ISXDIG)
RUN_CONTRACT(skipOctNum, ISODIG)
RUN_CONTRACT(skipBinNum, ISBDIG)

static void skipProgramExpression(lex_state_t * state)
__CPROVER_requires(LEX_PRE(state))
__CPROVER_assigns(state->pos)
__CPROVER_ensures(MONO(state))
__CPROVER_ensures(NEXT_NOT(state, ISEXPR))
CONTENT_ENS(CONSUMED(state) ==> ISEXPR(state->buffer[gh_li]))
;

/* [a-z][a-z0-9_]*  ; result is +length, or -length when the input ended inside/after it */
static int skipProgramMnemonic(lex_state_t * state)
__CPROVER_requires(LEX_PRE(state))
__CPROVER_assigns(state->pos)
__CPROVER_ensures(MONO(state))
__CPROVER_ensures(RET == (LEX_ATEND(state) ? -DISP(state) : DISP(state)))
__CPROVER_ensures(DISP(state) > 0 ==> ISALPHA(POS0(state)[0]))
/* the last byte consumed is a mnemonic character (callers need: a header never ends in CR/LF) */
__CPROVER_ensures(DISP(state) > 0 ==> ISMNE(state->pos[-1]))
CONTENT_ENS(CONSUMED(state) ==> ISMNE(state->buffer[gh_li]))
__CPROVER_ensures(LEX_ATEND(state) || (DISP(state) == 0 ? !ISALPHA(state->pos[0]) : !ISMNE(state->pos[0])))
;

/* quoted-string body: stops at the end of input, at a lone quote, or at a non-7-bit byte */
static void skipQuoteProgramData(lex_state_t * state, char quote)
__CPROVER_requires(LEX_PRE(state))
__CPROVER_requires(quote == '"' || quote == '\'')
__CPROVER_assigns(state->pos)
__CPROVER_ensures(MONO(state))
__CPROVER_ensures(LEX_ATEND(state) || state->pos[0] == quote || state->pos[0] < 0)
/* a quote it stops at is not the first half of a doubled quote */
__CPROVER_ensures((!LEX_ATEND(state) && state->pos[0] == quote) ==> (OFF(state->pos) + 1 == OFF(state->buffer) + state->len || state->pos[1] != quote))
CONTENT_ENS(CONSUMED(state) ==> state->buffer[gh_li] >= 0)
;

/* mantissa: [+-]? digit* ( '.' digit* )? ; result = number of digits */
static int skipMantisa(lex_state_t * state)
__CPROVER_requires(LEX_PRE(state))
__CPROVER_assigns(state->pos)
__CPROVER_ensures(MONO(state))
__CPROVER_ensures(RET >= 0 && RET <= DISP(state) && DISP(state) <= (long) RET + 2)
/* an input that starts with a digit has at least one digit counted */
__CPROVER_ensures(RET == 0 ==> (OFF(POS0(state)) == OFF(state->buffer) + state->len || !ISDIG(POS0(state)[0])))
__CPROVER_ensures(NEXT_NOT(state, ISDIG))
CONTENT_ENS(CONSUMED(state) ==> (ISDIG(state->buffer[gh_li]) || state->buffer[gh_li] == '.' || state->buffer[gh_li] == '+' || state->buffer[gh_li] == '-'))
CONTENT_ENS((CONSUMED(state) && (long) gh_li > IDX(state, POS0(state))) ==> (ISDIG(state->buffer[gh_li]) || state->buffer[gh_li] == '.'))
;

/* exponent: [eE] ws* [+-]? digit* ; result = number of digits (0 = no exponent, caller rolls back) */
static int skipExponent(lex_state_t * state)
__CPROVER_requires(LEX_PRE(state))
__CPROVER_assigns(state->pos)
__CPROVER_ensures(MONO(state))
__CPROVER_ensures(RET >= 0 && RET <= DISP(state))
__CPROVER_ensures(DISP(state) > 0 ==> ((POS0(state)[0] == 'e' || POS0(state)[0] == 'E') && DISP(state) >= (long) RET + 1))
__CPROVER_ensures(DISP(state) == 0 ==> (LEX_ATEND(state) || !(state->pos[0] == 'e' || state->pos[0] == 'E')))
__CPROVER_ensures(RET > 0 ==> NEXT_NOT(state, ISDIG))
CONTENT_ENS(RET > 0 ==> ISDIG(state->pos[-1]))
CONTENT_ENS((CONSUMED(state) && (long) gh_li > IDX(state, POS0(state))) ==> (ISDIG(state->buffer[gh_li]) || ISWS(state->buffer[gh_li]) || state->buffer[gh_li] == '+' || state->buffer[gh_li] == '-'))
;

#define SKIP_NONE_ 0
#define SKIP_OK_ 1
#define SKIP_INCOMPLETE_ (-1)
static int skipCommonProgramHeader(lex_state_t * state)
__CPROVER_requires(LEX_PRE(state))
__CPROVER_assigns(state->pos)
__CPROVER_ensures(MONO(state))
__CPROVER_ensures(RET == SKIP_NONE_ || RET == SKIP_OK_ || RET == SKIP_INCOMPLETE_)
__CPROVER_ensures(RET == SKIP_NONE_ <==> DISP(state) == 0)
__CPROVER_ensures(DISP(state) > 0 ==> POS0(state)[0] == '*')
__CPROVER_ensures(DISP(state) == 0 ==> (LEX_ATEND(state) || state->pos[0] != '*'))
/* a lone '*' (nothing that starts a mnemonic follows) is incomplete */
__CPROVER_ensures(RET == SKIP_INCOMPLETE_ <==> DISP(state) == 1)
CONTENT_ENS((CONSUMED(state) && (long) gh_li > IDX(state, POS0(state))) ==> ISMNE(state->buffer[gh_li]))
__CPROVER_ensures(DISP(state) > 1 ==> (ISALPHA(POS0(state)[1]) && NEXT_NOT(state, ISMNE)))
__CPROVER_ensures(DISP(state) > 1 ==> ISMNE(state->pos[-1]))
;
static int skipCompoundProgramHeader(lex_state_t * state)
__CPROVER_requires(LEX_PRE(state))
__CPROVER_assigns(state->pos)
__CPROVER_ensures(MONO(state))
__CPROVER_ensures(RET == SKIP_NONE_ || RET == SKIP_OK_ || RET == SKIP_INCOMPLETE_)
__CPROVER_ensures(RET == SKIP_NONE_ <==> DISP(state) == 0)
CONTENT_ENS(CONSUMED(state) ==> (ISMNE(state->buffer[gh_li]) || state->buffer[gh_li] == ':'))
__CPROVER_ensures(DISP(state) > 0 ==> (POS0(state)[0] == ':' || ISALPHA(POS0(state)[0])))
__CPROVER_ensures(DISP(state) == 0 ==> (LEX_ATEND(state) || !(state->pos[0] == ':' || ISALPHA(state->pos[0]))))
__CPROVER_ensures(DISP(state) > 0 ==> (ISMNE(state->pos[-1]) || state->pos[-1] == ':'))
;

/* ---- tokens --------------------------------------------------------------------------- */
#define TOK_PRE(state, token) (LEX_PRE(state) && __CPROVER_is_fresh(token, sizeof(*token)))
#define TOK_SPAN(state, token) (PTR_IS((token)->ptr, POS0(state)) && (token)->len == DISP(state))
#define TOK_REJECT(state, token) ((state)->pos == POS0(state) && (token)->len == 0 && (token)->type == SCPI_TOKEN_UNKNOWN && PTR_IS((token)->ptr, POS0(state)))
#define TOK_HEAD(fn) \
int fn(lex_state_t * state, scpi_token_t * token) \
__CPROVER_requires(TOK_PRE(state, token)) \
__CPROVER_assigns(state->pos, *token) \
__CPROVER_ensures(MONO(state))

int scpiLex_IsEos(lex_state_t * state)
__CPROVER_requires(LEX_PRE(state))
__CPROVER_assigns()
__CPROVER_ensures(RET == (LEX_ATEND(state) ? 1 : 0))
;

TOK_HEAD(scpiLex_WhiteSpace)
__CPROVER_ensures(TOK_SPAN(state, token) && RET == token->len)
__CPROVER_ensures(token->type == (token->len > 0 ? SCPI_TOKEN_WS : SCPI_TOKEN_UNKNOWN))
__CPROVER_ensures(NEXT_NOT(state, ISWS))
__CPROVER_ensures(token->len > 0 ==> ISWS(POS0(state)[0]))
CONTENT_ENS(CONSUMED(state) ==> ISWS(state->buffer[gh_li]))
;

#define IS_HEADER_TYPE(t) ((t) == SCPI_TOKEN_COMMON_QUERY_PROGRAM_HEADER || (t) == SCPI_TOKEN_COMMON_PROGRAM_HEADER \
    || (t) == SCPI_TOKEN_INCOMPLETE_COMMON_PROGRAM_HEADER || (t) == SCPI_TOKEN_COMPOUND_QUERY_PROGRAM_HEADER \
    || (t) == SCPI_TOKEN_COMPOUND_PROGRAM_HEADER || (t) == SCPI_TOKEN_INCOMPLETE_COMPOUND_PROGRAM_HEADER)
#define IS_COMMON_TYPE(t) ((t) == SCPI_TOKEN_COMMON_QUERY_PROGRAM_HEADER || (t) == SCPI_TOKEN_COMMON_PROGRAM_HEADER || (t) == SCPI_TOKEN_INCOMPLETE_COMMON_PROGRAM_HEADER)
#define IS_QUERY_TYPE(t) ((t) == SCPI_TOKEN_COMMON_QUERY_PROGRAM_HEADER || (t) == SCPI_TOKEN_COMPOUND_QUERY_PROGRAM_HEADER)
TOK_HEAD(scpiLex_ProgramHeader)
__CPROVER_ensures(RET == token->len && token->len >= 0)
__CPROVER_ensures(IS_HEADER_TYPE(token->type) || token->type == SCPI_TOKEN_UNKNOWN)
__CPROVER_ensures(token->type == SCPI_TOKEN_UNKNOWN ==> TOK_REJECT(state, token))
__CPROVER_ensures(token->type != SCPI_TOKEN_UNKNOWN ==> (TOK_SPAN(state, token) && token->len > 0))
BYTE_ENS(IS_COMMON_TYPE(token->type) <==> (token->len > 0 && token->ptr[0] == '*'))
__CPROVER_ensures(IS_QUERY_TYPE(token->type) ==> token->len >= 2)
/* last byte of a header: mnemonic character, ':', '*' or '?' - never CR or LF.  Enforced only with -DHDR_LASTBYTE
 * (thorough): the clause makes this job and its callers exceed the quick tier's time/memory. */
#ifdef HDR_LASTBYTE
__CPROVER_ensures(token->type != SCPI_TOKEN_UNKNOWN ==> (ISMNE(token->ptr[token->len - 1]) || token->ptr[token->len - 1] == ':' || token->ptr[token->len - 1] == '*' || token->ptr[token->len - 1] == '?'))
#endif
BYTE_ENS(IS_QUERY_TYPE(token->type) ==> token->ptr[token->len - 1] == '?')
BYTE_ENS((token->type == SCPI_TOKEN_COMMON_PROGRAM_HEADER || token->type == SCPI_TOKEN_COMPOUND_PROGRAM_HEADER) ==> (LEX_ATEND(state) || state->pos[0] != '?'))
BYTE_ENS(token->type == SCPI_TOKEN_UNKNOWN ==> (LEX_ATEND(state) || !(state->pos[0] == '*' || state->pos[0] == ':' || ISALPHA(state->pos[0]))))
CONTENT_ENS(CONSUMED(state) ==> (ISMNE(state->buffer[gh_li]) || state->buffer[gh_li] == ':' || state->buffer[gh_li] == '*' || state->buffer[gh_li] == '?'))
;

TOK_HEAD(scpiLex_CharacterProgramData)
__CPROVER_ensures(TOK_SPAN(state, token) && RET == token->len)
__CPROVER_ensures(token->type == (token->len > 0 ? SCPI_TOKEN_PROGRAM_MNEMONIC : SCPI_TOKEN_UNKNOWN))
BYTE_ENS(token->len > 0 ==> ISALPHA(token->ptr[0]))
CONTENT_ENS(CONSUMED(state) ==> ISMNE(state->buffer[gh_li]))
BYTE_ENS(LEX_ATEND(state) || (token->len == 0 ? !ISALPHA(state->pos[0]) : !ISMNE(state->pos[0])))
;

TOK_HEAD(scpiLex_DecimalNumericProgramData)
__CPROVER_ensures(TOK_SPAN(state, token) && RET == token->len)
__CPROVER_ensures(token->type == (token->len > 0 ? SCPI_TOKEN_DECIMAL_NUMERIC_PROGRAM_DATA : SCPI_TOKEN_UNKNOWN))
/* first byte starts a mantissa, last byte is a digit or the mantissa's point, next byte cannot extend the digits */
CONTENT_ENS(token->len > 0 ==> (ISDIG(token->ptr[0]) || token->ptr[0] == '.' || token->ptr[0] == '+' || token->ptr[0] == '-'))
CONTENT_ENS(token->len > 0 ==> (ISDIG(token->ptr[token->len - 1]) || token->ptr[token->len - 1] == '.'))
__CPROVER_ensures(token->len > 0 ==> NEXT_NOT(state, ISDIG))
CONTENT_ENS(CONSUMED(state) ==> (ISDIG(state->buffer[gh_li]) || ISWS(state->buffer[gh_li]) || state->buffer[gh_li] == '.' || state->buffer[gh_li] == '+'
    || state->buffer[gh_li] == '-' || state->buffer[gh_li] == 'e' || state->buffer[gh_li] == 'E'))
/* nothing that starts with a digit is rejected */
BYTE_ENS(token->len == 0 ==> (LEX_ATEND(state) || !ISDIG(state->pos[0])))
;

TOK_HEAD(scpiLex_SuffixProgramData)
__CPROVER_ensures(TOK_SPAN(state, token) && RET == token->len)
__CPROVER_ensures(token->type == (token->len > 0 ? SCPI_TOKEN_SUFFIX_PROGRAM_DATA : SCPI_TOKEN_UNKNOWN))
BYTE_ENS(token->len > 0 ==> (ISALPHA(token->ptr[0]) || token->ptr[0] == '/'))
BYTE_ENS(token->len == 0 ==> (LEX_ATEND(state) || !(ISALPHA(state->pos[0]) || state->pos[0] == '/')))
CONTENT_ENS(CONSUMED(state) ==> (ISALPHA(state->buffer[gh_li]) || ISDIG(state->buffer[gh_li]) || state->buffer[gh_li] == '/' || state->buffer[gh_li] == '.' || state->buffer[gh_li] == '-'))
;

TOK_HEAD(scpiLex_NondecimalNumericData)
__CPROVER_ensures(token->type == SCPI_TOKEN_HEXNUM || token->type == SCPI_TOKEN_OCTNUM || token->type == SCPI_TOKEN_BINNUM || token->type == SCPI_TOKEN_UNKNOWN)
__CPROVER_ensures(token->type == SCPI_TOKEN_UNKNOWN ==> (TOK_REJECT(state, token) && RET == 0))
/* accepted: token = the digits after the 2-byte prefix; result counts the prefix */
__CPROVER_ensures(token->type != SCPI_TOKEN_UNKNOWN ==> (token->len >= 1 && DISP(state) == (long) token->len + 2 && RET == token->len + 2 && PTR_IS(token->ptr, POS0(state) + 2)))
BYTE_ENS(token->type != SCPI_TOKEN_UNKNOWN ==> POS0(state)[0] == '#')
BYTE_ENS(token->type == SCPI_TOKEN_HEXNUM ==> ((POS0(state)[1] == 'h' || POS0(state)[1] == 'H') && NEXT_NOT(state, ISXDIG)))
BYTE_ENS(token->type == SCPI_TOKEN_OCTNUM ==> ((POS0(state)[1] == 'q' || POS0(state)[1] == 'Q') && NEXT_NOT(state, ISODIG)))
BYTE_ENS(token->type == SCPI_TOKEN_BINNUM ==> ((POS0(state)[1] == 'b' || POS0(state)[1] == 'B') && NEXT_NOT(state, ISBDIG)))
CONTENT_ENS((CONSUMED(state) && (long) gh_li >= IDX(state, POS0(state)) + 2) ==>
    (token->type == SCPI_TOKEN_HEXNUM ? ISXDIG(state->buffer[gh_li]) : token->type == SCPI_TOKEN_OCTNUM ? ISODIG(state->buffer[gh_li]) : ISBDIG(state->buffer[gh_li])))
;

TOK_HEAD(scpiLex_StringProgramData)
__CPROVER_ensures(RET == token->len)
__CPROVER_ensures(token->type == SCPI_TOKEN_SINGLE_QUOTE_PROGRAM_DATA || token->type == SCPI_TOKEN_DOUBLE_QUOTE_PROGRAM_DATA || token->type == SCPI_TOKEN_UNKNOWN)
__CPROVER_ensures(token->type == SCPI_TOKEN_UNKNOWN ==> TOK_REJECT(state, token))
__CPROVER_ensures(token->type != SCPI_TOKEN_UNKNOWN ==> (TOK_SPAN(state, token) && token->len >= 2))
BYTE_ENS(token->type != SCPI_TOKEN_UNKNOWN ==> (token->ptr[0] == (token->type == SCPI_TOKEN_SINGLE_QUOTE_PROGRAM_DATA ? '\'' : '"') && token->ptr[token->len - 1] == token->ptr[0]))
/* the closing quote is not the first half of a doubled quote, and the content is 7-bit */
BYTE_ENS(token->type != SCPI_TOKEN_UNKNOWN ==> (LEX_ATEND(state) || state->pos[0] != token->ptr[0]))
CONTENT_ENS(CONSUMED(state) ==> state->buffer[gh_li] >= 0)
;

TOK_HEAD(scpiLex_ArbitraryBlockProgramData)
__CPROVER_ensures(token->type == SCPI_TOKEN_ARBITRARY_BLOCK_PROGRAM_DATA || token->type == SCPI_TOKEN_UNKNOWN)
/* accepted: '#', a non-zero digit n, n digits, then exactly len data bytes = the token */
__CPROVER_ensures(token->type == SCPI_TOKEN_ARBITRARY_BLOCK_PROGRAM_DATA ==> (token->len >= 0 && __CPROVER_pointer_in_range_dfcc(POS0(state), token->ptr, state->pos)
    && OFF(token->ptr) + token->len == OFF(state->pos) && RET == DISP(state) && OFF(token->ptr) - OFF(POS0(state)) >= 3 && OFF(token->ptr) - OFF(POS0(state)) <= 11))
BYTE_ENS(token->type == SCPI_TOKEN_ARBITRARY_BLOCK_PROGRAM_DATA ==> (POS0(state)[0] == '#' && POS0(state)[1] >= '1' && POS0(state)[1] <= '9'
    && OFF(token->ptr) - OFF(POS0(state)) == 2 + (POS0(state)[1] - '0')))
CONTENT_ENS((token->type == SCPI_TOKEN_ARBITRARY_BLOCK_PROGRAM_DATA && (long) gh_li >= IDX(state, POS0(state)) + 2 && (long) gh_li < IDX(state, token->ptr)) ==> ISDIG(state->buffer[gh_li]))
/* not accepted: invalid (cursor rolled back) or incomplete (rest of the input swallowed) */
__CPROVER_ensures(token->type == SCPI_TOKEN_UNKNOWN ==> (token->len == 0 && RET == 0 && PTR_IS(token->ptr, POS0(state))
    && (state->pos == POS0(state) || (LEX_ATEND(state) && DISP(state) > 0))))
BYTE_ENS((token->type == SCPI_TOKEN_UNKNOWN && state->pos != POS0(state)) ==> POS0(state)[0] == '#')
;

TOK_HEAD(scpiLex_ProgramExpression)
__CPROVER_ensures(RET == token->len)
__CPROVER_ensures(token->type == SCPI_TOKEN_PROGRAM_EXPRESSION || token->type == SCPI_TOKEN_UNKNOWN)
__CPROVER_ensures(token->type == SCPI_TOKEN_UNKNOWN ==> TOK_REJECT(state, token))
__CPROVER_ensures(token->type == SCPI_TOKEN_PROGRAM_EXPRESSION ==> (TOK_SPAN(state, token) && token->len >= 2))
BYTE_ENS(token->type == SCPI_TOKEN_PROGRAM_EXPRESSION ==> (token->ptr[0] == '(' && token->ptr[token->len - 1] == ')'))
CONTENT_ENS((CONSUMED(state) && (long) gh_li > IDX(state, POS0(state)) && (long) gh_li + 1 < IDX(state, state->pos)) ==> ISEXPR(state->buffer[gh_li]))
;

#define SINGLE_CHAR_TOKEN(fn, CH, TYPE) \
TOK_HEAD(fn) \
__CPROVER_ensures(RET == token->len && PTR_IS(token->ptr, POS0(state))) \
__CPROVER_ensures((token->len == 1 && token->type == TYPE && DISP(state) == 1 && POS0(state)[0] == (CH)) \
    || (token->len == 0 && token->type == SCPI_TOKEN_UNKNOWN && DISP(state) == 0 && (LEX_ATEND(state) || state->pos[0] != (CH)))) \
;
SINGLE_CHAR_TOKEN(scpiLex_Comma, ',', SCPI_TOKEN_COMMA)
SINGLE_CHAR_TOKEN(scpiLex_Semicolon, ';', SCPI_TOKEN_SEMICOLON)
SINGLE_CHAR_TOKEN(scpiLex_Colon, ':', SCPI_TOKEN_COLON)

int scpiLex_SpecificCharacter(lex_state_t * state, scpi_token_t * token, char chr)
__CPROVER_requires(TOK_PRE(state, token))
__CPROVER_assigns(state->pos, *token)
__CPROVER_ensures(MONO(state))
__CPROVER_ensures(RET == token->len && PTR_IS(token->ptr, POS0(state)))
__CPROVER_ensures((token->len == 1 && token->type == SCPI_TOKEN_SPECIFIC_CHARACTER && DISP(state) == 1 && POS0(state)[0] == chr)
    || (token->len == 0 && token->type == SCPI_TOKEN_UNKNOWN && DISP(state) == 0 && (LEX_ATEND(state) || state->pos[0] != chr)))
;

TOK_HEAD(scpiLex_NewLine)
__CPROVER_ensures(RET == token->len && TOK_SPAN(state, token))
__CPROVER_ensures(token->type == (token->len > 0 ? SCPI_TOKEN_NL : SCPI_TOKEN_UNKNOWN))
__CPROVER_ensures(token->len == 0 || (token->len == 1 && (token->ptr[0] == '\r' || token->ptr[0] == '\n')) || (token->len == 2 && token->ptr[0] == '\r' && token->ptr[1] == '\n'))
__CPROVER_ensures(token->len == 0 ==> (LEX_ATEND(state) || !(state->pos[0] == '\r' || state->pos[0] == '\n')))
__CPROVER_ensures((token->len == 1 && token->ptr[0] == '\r') ==> (LEX_ATEND(state) || state->pos[0] != '\n'))
;
#endif
