/* Contracts for libscpi/src/error.c (C10, C11, C12, C05, C01). */
#ifndef VERIF_ERROR_H
#define VERIF_ERROR_H
#include "regs.h"
#include "fifo.h"
#include "libc.h"

/* C12: standard-event bit of an error code's class, written from the statement */
#define INR(e, hi, lo) ((e) <= (hi) && (e) >= (lo))
#define CLASSBIT(e) (INR(e, -100, -199) ? ESR_CER : INR(e, -200, -299) ? ESR_EER : (INR(e, -300, -399) || (e) >= 1) ? ESR_DER : \
    INR(e, -400, -499) ? ESR_QER : INR(e, -500, -599) ? ESR_PON : INR(e, -600, -699) ? ESR_URQ : INR(e, -700, -799) ? ESR_REQ : \
    INR(e, -800, -899) ? ESR_OPC : 0)

#define EQ(c) (&(c)->error_queue)
#define CTX_ERR_PRE(c) (CTX_REGS_PRE(c) && QPRE(EQ(c)) && COH_REGS(c) && COH_QMA(c))
#define HAS_ERRCB(c) ((c)->interface != NULL && (c)->interface->error != NULL)
#define GHOST_FREE gh_free_n, gh_free_last, gh_free_prev
/* ghost counters are unsigned and may wrap: no range preconditions */
#define GH_RANGES 1
#define TXTMAX 100000
/* only the error-available bit and MSS of the status byte may change */
#define STB_ONLY_QMA(c) ((R(c, SCPI_REG_STB) & ~(STB_QMA | STB_SRQ)) == (OLD(R(c, SCPI_REG_STB)) & ~(STB_QMA | STB_SRQ)))
#define REGS_UNCH_BUT_STB_ESR(c) (UNCH(c, SCPI_REG_SRE) && UNCH(c, SCPI_REG_ESE) && UNCH(c, SCPI_REG_OPER) && UNCH(c, SCPI_REG_OPERE) \
    && UNCH(c, SCPI_REG_OPERC) && UNCH(c, SCPI_REG_QUES) && UNCH(c, SCPI_REG_QUESE) && UNCH(c, SCPI_REG_QUESC))
#define QLAST(c) QVIEW(EQ(c), EQ(c)->count - 1)
/* frame of a push: the slot at the write index, or the newest slot when the queue is full */
#define QNEWEST(c) WRAPQ(EQ(c), (int)EQ(c)->rd + (EQ(c)->count > 0 ? (int)EQ(c)->count - 1 : 0))
#define QUEUE_FRAME(c) EQ(c)->wr, EQ(c)->count; (EQ(c)->count < EQ(c)->size): EQ(c)->data[EQ(c)->wr]; (EQ(c)->count == EQ(c)->size && EQ(c)->wr > 0): EQ(c)->data[EQ(c)->wr - 1]; (EQ(c)->count == EQ(c)->size && EQ(c)->wr == 0): EQ(c)->data[EQ(c)->size - 1]

/* what callers of SCPI_ErrorPush need: exactly one error with this code was queued (or the overflow
 * marker, if the queue was full), or nothing was queued */
#define PUSHED_ONE(c, code) (OLD(EQ(c)->count) < EQ(c)->size ? (EQ(c)->count == OLD(EQ(c)->count) + 1 && QLAST(c).error_code == (code)) \
    : (EQ(c)->count == EQ(c)->size && QLAST(c).error_code == SCPI_ERROR_QUEUE_OVERFLOW))
#define NO_PUSH(c) (EQ(c)->count == OLD(EQ(c)->count) && EQ(c)->wr == OLD(EQ(c)->wr) && (c)->cmd_error == OLD((c)->cmd_error))
#define ERRPUSH_FRAME(c) REGS_ALL(c), (c)->cmd_error, GHOST_SRQ, GHOST_ERRCB, GHOST_FREE, gh_dup_len, QUEUE_FRAME(c)
/* everything SCPI_ErrorPush requires of the context beyond its own allocation */
/* context invariants every function that may queue an error hands back */
#define CTX_ERR_POST(c) (QINV(EQ(c)) && QSAME(EQ(c)) && EQ(c)->rd == OLD(EQ(c)->rd) && COH_REGS(c) && COH_QMA(c))
#define CTX_ERRQ_OK(c) (QPRE(EQ(c)) && COH_REGS(c) && COH_QMA(c) && GH_RANGES)

void SCPI_ErrorInit(scpi_t * context, scpi_error_t * data, int16_t size)
__CPROVER_requires(__CPROVER_is_fresh(context, sizeof(*context)))
__CPROVER_assigns(context->error_queue)
__CPROVER_ensures(EQ(context)->wr == 0 && EQ(context)->rd == 0 && EQ(context)->count == 0 && EQ(context)->data == data && EQ(context)->size == size)
;

int32_t SCPI_ErrorCount(scpi_t * context)
__CPROVER_requires(__CPROVER_is_fresh(context, sizeof(*context)))
__CPROVER_assigns()
__CPROVER_ensures(RET == EQ(context)->count)
;

#if USE_DEVICE_DEPENDENT_ERROR_INFORMATION && USE_MEMORY_ALLOCATION_FREE
#define INFO_OF(e) ((e).device_dependent_info)
/* queue an error; on a full queue replace the newest entry by -350 and release both texts */
static scpi_bool_t SCPI_ErrorAddInternal(scpi_t * context, int16_t err, char * info, size_t info_len)
__CPROVER_requires(__CPROVER_is_fresh(context, sizeof(*context)) && QPRE(EQ(context)))
__CPROVER_requires(info == NULL || info_len == 0 || (info_len <= TXTMAX && __CPROVER_is_fresh(info, info_len)))
__CPROVER_assigns(GHOST_FREE, gh_dup_len, QUEUE_FRAME(context))
__CPROVER_ensures(QINV(EQ(context)) && QSAME(EQ(context)) && EQ(context)->rd == OLD(EQ(context)->rd))
__CPROVER_ensures(RET == (OLD(EQ(context)->count) < EQ(context)->size))
__CPROVER_ensures(RET ==> (EQ(context)->count == OLD(EQ(context)->count) + 1 && QLAST(context).error_code == err && gh_free_n == OLD(gh_free_n)))
__CPROVER_ensures((RET && info == NULL) ==> INFO_OF(QLAST(context)) == NULL)
/* stored text is a NUL-terminated copy of the pushed text (or absent if the copy failed) */
__CPROVER_ensures((RET && INFO_OF(QLAST(context)) != NULL) ==> (info != NULL && gh_dup_len <= info_len
    && __CPROVER_is_fresh(INFO_OF(QLAST(context)), gh_dup_len + 1) && INFO_OF(QLAST(context))[gh_dup_len] == 0
    && (gh_w < gh_dup_len ==> INFO_OF(QLAST(context))[gh_w < gh_dup_len ? gh_w : 0] == info[gh_w < gh_dup_len ? gh_w : 0])))
__CPROVER_ensures(RET ==> (gh_k < OLD(EQ(context)->count) ==> EQ_ENTRY_OLD(EQ(context), gh_k, gh_k)))
/* overflow */
__CPROVER_ensures(!RET ==> (EQ(context)->count == OLD(EQ(context)->count) && QLAST(context).error_code == SCPI_ERROR_QUEUE_OVERFLOW
    && INFO_OF(QLAST(context)) == NULL))
__CPROVER_ensures(!RET ==> (gh_free_n == OLD(gh_free_n) + 2
    && gh_free_last == OLD(INFO_OF(QVIEW(EQ(context), (EQ(context)->count > 0 ? EQ(context)->count - 1 : 0))))))
__CPROVER_ensures(!RET ==> (gh_k + 1 < OLD(EQ(context)->count) ==> EQ_ENTRY_OLD(EQ(context), gh_k, gh_k)))
;
#endif

void SCPI_ErrorPushEx(scpi_t * context, int16_t err, char * info, size_t info_len)
__CPROVER_requires(CTX_ERR_PRE(context) && GH_RANGES)
__CPROVER_requires(info == NULL || (info_len > 0 && info_len <= TXTMAX && __CPROVER_is_fresh(info, info_len))
    || (info_len == 0 && gh_nul < SCPI_STD_ERROR_DESC_MAX_STRING_LENGTH && __CPROVER_is_fresh(info, gh_nul + 1) && info[gh_nul] == 0))
__CPROVER_assigns(REGS_ALL(context), context->cmd_error, GHOST_SRQ, GHOST_ERRCB, GHOST_FREE, gh_dup_len, QUEUE_FRAME(context))
__CPROVER_ensures(QINV(EQ(context)) && QSAME(EQ(context)) && EQ(context)->rd == OLD(EQ(context)->rd))
/* C11 */
__CPROVER_ensures(COH_REGS(context) && COH_QMA(context))
/* C12: exactly the class bit is set */
__CPROVER_ensures(R(context, SCPI_REG_ESR) == (OLD(R(context, SCPI_REG_ESR)) | CLASSBIT(err)))
__CPROVER_ensures(REGS_UNCH_BUT_STB_ESR(context))
__CPROVER_ensures((R(context, SCPI_REG_STB) & ~(STB_QMA | STB_SRQ | STB_ESR)) == (OLD(R(context, SCPI_REG_STB)) & ~(STB_QMA | STB_SRQ | STB_ESR)))
/* C05/C09 */
__CPROVER_ensures(context->cmd_error)
/* C10: FIFO with overflow marking */
__CPROVER_ensures(OLD(EQ(context)->count) < EQ(context)->size ==> (EQ(context)->count == OLD(EQ(context)->count) + 1 && QLAST(context).error_code == err
    && (gh_k < OLD(EQ(context)->count) ==> EQ_ENTRY_OLD(EQ(context), gh_k, gh_k))))
__CPROVER_ensures(OLD(EQ(context)->count) == EQ(context)->size ==> (EQ(context)->count == EQ(context)->size && QLAST(context).error_code == SCPI_ERROR_QUEUE_OVERFLOW
    && (gh_k + 1 < OLD(EQ(context)->count) ==> EQ_ENTRY_OLD(EQ(context), gh_k, gh_k))))
#if USE_DEVICE_DEPENDENT_ERROR_INFORMATION && USE_MEMORY_ALLOCATION_FREE
__CPROVER_ensures(OLD(EQ(context)->count) == EQ(context)->size ==> INFO_OF(QLAST(context)) == NULL)
__CPROVER_ensures((OLD(EQ(context)->count) < EQ(context)->size && info == NULL) ==> INFO_OF(QLAST(context)) == NULL)
#endif
/* error callback: once with the code, once more with -350 on overflow */
__CPROVER_ensures(HAS_ERRCB(context) ==> (gh_err_n == OLD(gh_err_n) + (OLD(EQ(context)->count) == EQ(context)->size ? 2 : 1)
    && gh_err_last == (OLD(EQ(context)->count) == EQ(context)->size ? SCPI_ERROR_QUEUE_OVERFLOW : err)))
__CPROVER_ensures(!HAS_ERRCB(context) ==> gh_err_n == OLD(gh_err_n))
;

void SCPI_ErrorPush(scpi_t * context, int16_t err)
__CPROVER_requires(CTX_ERR_PRE(context) && GH_RANGES)
__CPROVER_assigns(REGS_ALL(context), context->cmd_error, GHOST_SRQ, GHOST_ERRCB, GHOST_FREE, gh_dup_len, QUEUE_FRAME(context))
__CPROVER_ensures(QINV(EQ(context)) && QSAME(EQ(context)) && EQ(context)->rd == OLD(EQ(context)->rd))
__CPROVER_ensures(COH_REGS(context) && COH_QMA(context))
__CPROVER_ensures(R(context, SCPI_REG_ESR) == (OLD(R(context, SCPI_REG_ESR)) | CLASSBIT(err)))
__CPROVER_ensures(REGS_UNCH_BUT_STB_ESR(context))
__CPROVER_ensures((R(context, SCPI_REG_STB) & ~(STB_QMA | STB_SRQ | STB_ESR)) == (OLD(R(context, SCPI_REG_STB)) & ~(STB_QMA | STB_SRQ | STB_ESR)))
__CPROVER_ensures(context->cmd_error)
__CPROVER_ensures(OLD(EQ(context)->count) < EQ(context)->size ==> (EQ(context)->count == OLD(EQ(context)->count) + 1 && QLAST(context).error_code == err
    && (gh_k < OLD(EQ(context)->count) ==> EQ_ENTRY_OLD(EQ(context), gh_k, gh_k))))
__CPROVER_ensures(OLD(EQ(context)->count) == EQ(context)->size ==> (EQ(context)->count == EQ(context)->size && QLAST(context).error_code == SCPI_ERROR_QUEUE_OVERFLOW
    && (gh_k + 1 < OLD(EQ(context)->count) ==> EQ_ENTRY_OLD(EQ(context), gh_k, gh_k))))
#if USE_DEVICE_DEPENDENT_ERROR_INFORMATION && USE_MEMORY_ALLOCATION_FREE
__CPROVER_ensures(INFO_OF(QLAST(context)) == NULL)
#endif
__CPROVER_ensures(HAS_ERRCB(context) ==> (gh_err_n == OLD(gh_err_n) + (OLD(EQ(context)->count) == EQ(context)->size ? 2 : 1)
    && gh_err_last == (OLD(EQ(context)->count) == EQ(context)->size ? SCPI_ERROR_QUEUE_OVERFLOW : err)))
__CPROVER_ensures(!HAS_ERRCB(context) ==> gh_err_n == OLD(gh_err_n))
;

scpi_bool_t SCPI_ErrorPop(scpi_t * context, scpi_error_t * error)
__CPROVER_requires(CTX_ERR_PRE(context) && GH_RANGES)
__CPROVER_requires(error == NULL || __CPROVER_is_fresh(error, sizeof(*error)))
__CPROVER_assigns(EQ(context)->rd, EQ(context)->count, REGS_ALL(context), GHOST_SRQ, GHOST_ERRCB; error != NULL: *error)
__CPROVER_ensures(RET == (error != NULL))
__CPROVER_ensures(QINV(EQ(context)) && QSAME(EQ(context)) && EQ(context)->wr == OLD(EQ(context)->wr))
__CPROVER_ensures(COH_REGS(context) && COH_QMA(context))
__CPROVER_ensures(UNCH(context, SCPI_REG_ESR) && REGS_UNCH_BUT_STB_ESR(context) && STB_ONLY_QMA(context))
/* head comes out, the rest shifts; empty queue yields 0 / no text */
__CPROVER_ensures((error != NULL && OLD(EQ(context)->count) > 0) ==> (EQ(context)->count == OLD(EQ(context)->count) - 1
    && error->error_code == OLD(QVIEW(EQ(context), 0).error_code)
    && ((gh_k >= 1 && gh_k < OLD(EQ(context)->count)) ==> EQ_ENTRY_OLD(EQ(context), gh_k - 1, gh_k))))
__CPROVER_ensures((error != NULL && OLD(EQ(context)->count) == 0) ==> (EQ(context)->count == 0 && error->error_code == 0))
__CPROVER_ensures(error == NULL ==> (EQ(context)->count == OLD(EQ(context)->count) && EQ(context)->rd == OLD(EQ(context)->rd)))
#if USE_DEVICE_DEPENDENT_ERROR_INFORMATION
__CPROVER_ensures((error != NULL && OLD(EQ(context)->count) > 0) ==> error->device_dependent_info == OLD(QVIEW(EQ(context), 0).device_dependent_info))
__CPROVER_ensures((error != NULL && OLD(EQ(context)->count) == 0) ==> error->device_dependent_info == NULL)
#endif
/* error callback announces the empty queue exactly when the queue drained */
__CPROVER_ensures((HAS_ERRCB(context) && error != NULL && OLD(EQ(context)->count) == 1) ==> (gh_err_n == OLD(gh_err_n) + 1 && gh_err_last == 0))
__CPROVER_ensures(!(HAS_ERRCB(context) && error != NULL && OLD(EQ(context)->count) == 1) ==> gh_err_n == OLD(gh_err_n))
;

void SCPI_ErrorClear(scpi_t * context)
__CPROVER_requires(CTX_ERR_PRE(context) && GH_RANGES)
__CPROVER_assigns(EQ(context)->wr, EQ(context)->rd, EQ(context)->count, REGS_ALL(context), GHOST_SRQ, GHOST_ERRCB, GHOST_FREE)
__CPROVER_ensures(EQ(context)->count == 0 && EQ(context)->rd == 0 && EQ(context)->wr == 0 && QSAME(EQ(context)))
__CPROVER_ensures(COH_REGS(context) && COH_QMA(context))
__CPROVER_ensures(UNCH(context, SCPI_REG_ESR) && REGS_UNCH_BUT_STB_ESR(context) && STB_ONLY_QMA(context))
#if USE_DEVICE_DEPENDENT_ERROR_INFORMATION && USE_MEMORY_ALLOCATION_FREE
/* every stored entry's text is released exactly once */
__CPROVER_ensures(gh_free_n == OLD(gh_free_n) + OLD(EQ(context)->count))
#endif
__CPROVER_ensures((HAS_ERRCB(context) && OLD(EQ(context)->count) > 0) ==> (gh_err_n == OLD(gh_err_n) + 1 && gh_err_last == 0))
__CPROVER_ensures(!(HAS_ERRCB(context) && OLD(EQ(context)->count) > 0) ==> gh_err_n == OLD(gh_err_n))
;
#endif
