/* Contracts for command dispatch: composeCompoundCommand (utils.c), findCommandHeader,
 * processCommand, SCPI_Parse, SCPI_Input (parser.c).  C02, C05, C06, C08, C09, C01. */
#ifndef VERIF_DISPATCH_H
#define VERIF_DISPATCH_H
#include "param.h"

/* ---- ghost observers of the command handler ------------------------------------------- */
extern unsigned gh_handler_calls;            /* handler invocations */
extern const scpi_command_t *gh_h_cmd;  /* table entry seen by the most recent handler */
extern const char *gh_h_raw; extern size_t gh_h_rawlen;   /* effective header seen by it */
extern char *gh_h_pbuf; extern int gh_h_plen;               /* its program data */
extern size_t gh_j;                      /* witness: command table index */
extern size_t gh_ncmd;                   /* index of the table terminator */

/* ASSUMED here, decided by the C03 jobs: the matcher is a deterministic function of its arguments */
/* proof device: within one search the header is fixed, so 'pattern accepts header' is an arbitrary but
 * fixed predicate of the pattern; it is modelled by one bit of the (unconstrained) pattern pointer value */
#define MATCHES(pattern) ((__CPROVER_POINTER_OFFSET(pattern) & 1) != 0)
scpi_bool_t matchCommand(const char * pattern, const char * cmd, size_t len, int32_t *numbers, size_t numbers_len, int32_t default_value)
__CPROVER_requires(pattern != NULL && cmd != NULL)
__CPROVER_assigns()
__CPROVER_ensures(RET == MATCHES(pattern))
;

/* What a command handler may do: anything the public parameter/result API allows.  Every API
 * function is proved separately to keep the context well formed, so a sequence of them does too.
 * C09: the handler REQUIRES the per-unit state to be fresh - the library must establish it. */
scpi_result_t handler_contract(scpi_t * context)
__CPROVER_requires(context->cmd_error == FALSE && context->input_count == 0 && context->output_count == 0 && context->arbitrary_remaining == 0)
__CPROVER_requires(PLEX(context)->pos == PLEX(context)->buffer)
__CPROVER_requires(OUT_LEVEL(3))
__CPROVER_assigns(gh_handler_calls, gh_h_cmd, gh_h_raw, gh_h_rawlen, gh_h_pbuf, gh_h_plen, context->cmd_error, context->input_count, context->output_count,
    PLEX(context)->pos, context->arbitrary_remaining, gh_out_len, gh_out_calls, gh_out_last)
__CPROVER_ensures(gh_handler_calls == OLD(gh_handler_calls) + 1)
__CPROVER_ensures(gh_h_cmd == context->param_list.cmd && gh_h_raw == context->param_list.cmd_raw.data && gh_h_rawlen == context->param_list.cmd_raw.length
    && gh_h_pbuf == PLEX(context)->buffer && gh_h_plen == PLEX(context)->len)
__CPROVER_ensures(RET == SCPI_RES_OK || RET == SCPI_RES_ERR)
__CPROVER_ensures(__CPROVER_pointer_in_range_dfcc(PLEX(context)->buffer, PLEX(context)->pos, PLEX(context)->buffer + PLEX(context)->len))
__CPROVER_ensures(context->output_count >= 0 && context->output_count < 30000 && context->input_count >= 0)
/* it responds exactly when it emitted at least one result item */
__CPROVER_ensures(gh_out_len >= OLD(gh_out_len) && gh_out_len - OLD(gh_out_len) <= (1ul << 40) && gh_out_calls >= OLD(gh_out_calls) && gh_out_calls - OLD(gh_out_calls) <= (1ul << 40))
__CPROVER_ensures((context->output_count > 0) == (gh_out_len > OLD(gh_out_len)))
;

/* ---- composeCompoundCommand (utils.c) --------------------------------------------------- */
#define TOK_EMPTY(t) ((t)->ptr == NULL || (t)->len == 0)
#define PREV_OLD_BYTE(idx) OLD((TOK_EMPTY(prev) ? gh_buf : prev->ptr)[(TOK_EMPTY(prev) || (idx) >= (size_t) prev->len) ? 0 : (idx)])
#define CUR_EMPTY0 (OLD(current->ptr) == NULL || OLD(current->len) == 0)
scpi_bool_t composeCompoundCommand(const scpi_token_t * prev, scpi_token_t * current)
__CPROVER_requires(__CPROVER_is_fresh(prev, sizeof(*prev)) && __CPROVER_is_fresh(current, sizeof(*current)))
__CPROVER_requires(gh_buflen <= LEXMAX && __CPROVER_is_fresh(gh_buf, gh_buflen + 1))
__CPROVER_requires(prev->len >= 0 && current->len >= 0)
__CPROVER_requires(TOK_EMPTY(prev) || (__CPROVER_pointer_in_range_dfcc(gh_buf, prev->ptr, gh_buf + gh_buflen) && OFF(prev->ptr) + prev->len <= OFF(gh_buf) + (long) gh_buflen))
__CPROVER_requires(TOK_EMPTY(current) || (__CPROVER_pointer_in_range_dfcc(gh_buf, current->ptr, gh_buf + gh_buflen) && OFF(current->ptr) + current->len <= OFF(gh_buf) + (long) gh_buflen))
/* the previous header lies entirely before the current one, with at least the separator in between */
__CPROVER_requires((TOK_EMPTY(prev) || TOK_EMPTY(current)) || OFF(prev->ptr) + prev->len < OFF(current->ptr))
__CPROVER_assigns(current->ptr, current->len; (!TOK_EMPTY(prev) && !TOK_EMPTY(current)): __CPROVER_object_upto(current->ptr - prev->len, (size_t) prev->len))
__CPROVER_ensures(RET == !CUR_EMPTY0)
/* extent only ever grows to the left, by at most the length of the previous header */
__CPROVER_ensures(CUR_EMPTY0 ==> (current->ptr == OLD(current->ptr) && current->len == OLD(current->len)))
__CPROVER_ensures(!CUR_EMPTY0 ==> (__CPROVER_pointer_in_range_dfcc(gh_buf, current->ptr, OLD(current->ptr))
    && OFF(current->ptr) + current->len == OFF(OLD(current->ptr)) + OLD(current->len)
    && OFF(OLD(current->ptr)) - OFF(current->ptr) <= (TOK_EMPTY(prev) ? 0 : prev->len)))
/* nothing to do: no previous header, current is absolute (':') or common ('*'), previous was common */
__CPROVER_ensures((!CUR_EMPTY0 && (TOK_EMPTY(prev) || OLD(current->ptr)[0] == '*' || OLD(current->ptr)[0] == ':' || PREV_OLD_BYTE(0) == '*'))
    ==> current->ptr == OLD(current->ptr))
/* otherwise the prefix copied is the previous header up to and including its LAST colon */
__CPROVER_ensures((!CUR_EMPTY0 && current->ptr != OLD(current->ptr)) ==> (current->ptr[OFF(OLD(current->ptr)) - OFF(current->ptr) - 1] == ':'))
__CPROVER_ensures((!CUR_EMPTY0 && !TOK_EMPTY(prev) && gh_w >= (size_t)(OFF(OLD(current->ptr)) - OFF(current->ptr)) && gh_w < (size_t) prev->len
    && !(OLD(current->ptr)[0] == '*' || OLD(current->ptr)[0] == ':' || PREV_OLD_BYTE(0) == '*')) ==> PREV_OLD_BYTE(gh_w) != ':')
__CPROVER_ensures((!CUR_EMPTY0 && gh_w < (size_t)(OFF(OLD(current->ptr)) - OFF(current->ptr))) ==> current->ptr[gh_w] == PREV_OLD_BYTE(gh_w))
;

/* ---- findCommandHeader: first entry whose pattern accepts the header --------------------- */
/* command table: gh_ncmd entries with a pattern, then the terminator.  "Every entry before the
 * terminator has a pattern" is written out for tables of up to 8 entries (symbolic length <= 8); the
 * search loop itself is closed by its invariant, not unrolled. */
#define NN(c, k) ((k) >= gh_ncmd || (c)->cmdlist[k].pattern != NULL)
#define CMDLIST_PRE(c) (gh_ncmd <= 8 && __CPROVER_is_fresh((c)->cmdlist, (gh_ncmd + 1) * sizeof(scpi_command_t)) && (c)->cmdlist[gh_ncmd].pattern == NULL \
    && NN(c, 0) && NN(c, 1) && NN(c, 2) && NN(c, 3) && NN(c, 4) && NN(c, 5) && NN(c, 6) && NN(c, 7))
#define CMD_INDEX(c) ((size_t)((c)->param_list.cmd - (c)->cmdlist))
static scpi_bool_t findCommandHeader(scpi_t * context, const char * header, int len)
__CPROVER_requires(__CPROVER_is_fresh(context, sizeof(*context)) && CMDLIST_PRE(context))
__CPROVER_requires(len >= 1 && len <= LEXMAX && __CPROVER_is_fresh(header, len))
/* proof device: the table entry under observation (witness gh_j) is the only one whose pattern text is modelled */
__CPROVER_assigns(context->param_list.cmd)
__CPROVER_ensures(RET ==> (__CPROVER_pointer_in_range_dfcc(context->cmdlist, context->param_list.cmd, context->cmdlist + gh_ncmd) && CMD_INDEX(context) < gh_ncmd))
__CPROVER_ensures(!RET ==> context->param_list.cmd == OLD(context->param_list.cmd))
/* C02: the witness entry is accepted iff it is the one chosen or comes after it */
__CPROVER_ensures((RET && gh_j < gh_ncmd && gh_j < CMD_INDEX(context)) ==> !MATCHES(context->cmdlist[gh_j].pattern))
__CPROVER_ensures((RET && gh_j < gh_ncmd && gh_j == CMD_INDEX(context)) ==> MATCHES(context->cmdlist[gh_j].pattern))
__CPROVER_ensures((!RET && gh_j < gh_ncmd) ==> !MATCHES(context->cmdlist[gh_j].pattern))
;

/* results of the most recent handler, recorded by handler_contract */
extern scpi_result_t gh_h_ret; extern scpi_bool_t gh_h_cmderr; extern scpi_bool_t gh_h_unread; extern int gh_h_items;
#define HANDLER_RESULT_CLAUSES \
__CPROVER_ensures(gh_h_ret == RET && gh_h_cmderr == context->cmd_error && gh_h_items == context->output_count \
    && gh_h_unread == (OFF(PLEX(context)->pos) < OFF(PLEX(context)->buffer) + PLEX(context)->len))

/* ---- processCommand ---------------------------------------------------------------------- */
#define CMD_OF(c) ((c)->param_list.cmd)
#define IS_QUERY(c) ((c)->param_list.cmd_raw.data[(c)->param_list.cmd_raw.length - 1] == '?')
#define CTX_CMD_PRE(c) (CTX_ERR_PRE(c) && IFACE_WRITE_OK(c) && PARAM_LEX_PRE(c) \
    && __CPROVER_is_fresh(CMD_OF(c), sizeof(scpi_command_t)) && (CMD_OF(c)->callback == NULL || __CPROVER_obeys_contract(CMD_OF(c)->callback, handler_contract_full)) \
    && (c)->param_list.cmd_raw.length >= 1 && (c)->param_list.cmd_raw.length <= LEXMAX && __CPROVER_is_fresh((c)->param_list.cmd_raw.data, (c)->param_list.cmd_raw.length) \
    && PLEX(c)->pos == PLEX(c)->buffer && OUT_LEVEL(4))
#define IFACE_WRITE_OK(c) ((c)->interface != NULL && (c)->interface->write != NULL && __CPROVER_obeys_contract((c)->interface->write, write_contract) \
    && ((c)->interface->flush == NULL || __CPROVER_obeys_contract((c)->interface->flush, flush_contract)))
/* handler that behaves like the header says: a query responds and succeeds, a command does not respond */
#define WELL_BEHAVED(c) ((IS_QUERY(c) == (gh_h_items > 0)) && (gh_h_items > 0 ==> (gh_h_ret == SCPI_RES_OK && !gh_h_cmderr)))

scpi_result_t handler_contract_full(scpi_t * context)
__CPROVER_requires(context->cmd_error == FALSE && context->input_count == 0 && context->output_count == 0 && context->arbitrary_remaining == 0)
__CPROVER_requires(PLEX(context)->pos == PLEX(context)->buffer && OUT_LEVEL(3))
__CPROVER_assigns(gh_handler_calls, gh_h_cmd, gh_h_raw, gh_h_rawlen, gh_h_pbuf, gh_h_plen, gh_h_ret, gh_h_cmderr, gh_h_unread, gh_h_items, context->cmd_error, context->input_count,
    context->output_count, PLEX(context)->pos, context->arbitrary_remaining, gh_out_len, gh_out_calls, gh_out_last)
__CPROVER_ensures(gh_handler_calls == OLD(gh_handler_calls) + 1)
__CPROVER_ensures(gh_h_cmd == context->param_list.cmd && gh_h_raw == context->param_list.cmd_raw.data && gh_h_rawlen == context->param_list.cmd_raw.length
    && gh_h_pbuf == PLEX(context)->buffer && gh_h_plen == PLEX(context)->len)
__CPROVER_ensures(RET == SCPI_RES_OK || RET == SCPI_RES_ERR)
__CPROVER_ensures(__CPROVER_pointer_in_range_dfcc(PLEX(context)->buffer, PLEX(context)->pos, PLEX(context)->buffer + PLEX(context)->len))
__CPROVER_ensures(context->output_count >= 0 && context->output_count < 30000 && context->input_count >= 0)
__CPROVER_ensures(gh_out_len >= OLD(gh_out_len) && gh_out_len - OLD(gh_out_len) <= (1ul << 40) && gh_out_calls >= OLD(gh_out_calls) && gh_out_calls - OLD(gh_out_calls) <= (1ul << 40))
__CPROVER_ensures((context->output_count > 0) == (gh_out_len > OLD(gh_out_len)))
HANDLER_RESULT_CLAUSES
;

static scpi_bool_t processCommand(scpi_t * context)
__CPROVER_requires(CTX_CMD_PRE(context))
__CPROVER_assigns(gh_handler_calls, gh_h_cmd, gh_h_raw, gh_h_rawlen, gh_h_pbuf, gh_h_plen, gh_h_ret, gh_h_cmderr, gh_h_unread, gh_h_items, context->input_count,
    context->output_count, PLEX(context)->pos, context->arbitrary_remaining, context->first_output, GHOST_OUT, ERRPUSH_FRAME(context))
/* C02: the handler of the matched entry runs exactly once, and sees entry, effective header and program data */
__CPROVER_ensures(gh_handler_calls == OLD(gh_handler_calls) + (CMD_OF(context)->callback != NULL ? 1 : 0))
__CPROVER_ensures(CMD_OF(context)->callback != NULL ==> (gh_h_cmd == CMD_OF(context) && gh_h_raw == context->param_list.cmd_raw.data
    && gh_h_rawlen == context->param_list.cmd_raw.length && gh_h_pbuf == PLEX(context)->buffer && gh_h_plen == PLEX(context)->len))
__CPROVER_ensures(QINV(EQ(context)) && QSAME(EQ(context)) && COH_REGS(context) && COH_QMA(context))
/* C05: -200 for a handler that fails without its own error, -108 for parameters left unread by a handler that succeeded */
__CPROVER_ensures((CMD_OF(context)->callback != NULL && gh_h_ret != SCPI_RES_OK && !gh_h_cmderr) ==> (!RET && PUSHED_ONE(context, SCPI_ERROR_EXECUTION_ERROR)))
__CPROVER_ensures((CMD_OF(context)->callback != NULL && gh_h_ret == SCPI_RES_OK && !gh_h_cmderr && gh_h_unread) ==> (!RET && PUSHED_ONE(context, SCPI_ERROR_PARAMETER_NOT_ALLOWED)))
__CPROVER_ensures((CMD_OF(context)->callback != NULL && gh_h_cmderr) ==> (!RET && EQ(context)->count == OLD(EQ(context)->count)))
__CPROVER_ensures((CMD_OF(context)->callback != NULL && gh_h_ret == SCPI_RES_OK && !gh_h_cmderr && !gh_h_unread) ==> (RET && EQ(context)->count == OLD(EQ(context)->count)))
__CPROVER_ensures((CMD_OF(context)->callback == NULL && PLEX(context)->len == 0) ==> (RET && EQ(context)->count == OLD(EQ(context)->count)))
__CPROVER_ensures((CMD_OF(context)->callback == NULL && PLEX(context)->len > 0) ==> (!RET && PUSHED_ONE(context, SCPI_ERROR_PARAMETER_NOT_ALLOWED)))
/* C06: the unit separator, written from the statement: ';' exactly when an earlier unit of this
 * message has responded and this unit responds; stated for handlers that behave as their header says
 * (a query responds and succeeds, a command stays silent) - the other shapes are known findings */
#ifndef KF_C06_SHAPES
#define WB_CALL(c) (CMD_OF(c)->callback != NULL && WELL_BEHAVED(c))
__CPROVER_ensures(WB_CALL(context) ==> (context->first_output != 0) == (OLD(context->first_output) != 0 && !(gh_h_items > 0)))
__CPROVER_ensures((WB_CALL(context) && gh_h_items == 0) ==> gh_out_len == OLD(gh_out_len))
__CPROVER_ensures((WB_CALL(context) && gh_h_items > 0 && !OLD(context->first_output)) ==> (gh_out_len >= OLD(gh_out_len) + 2 && ((gh_watch == OLD(gh_out_len) && OLD(gh_out_len) <= (1ul << 61)) ==> gh_watch_val == ';')))
__CPROVER_ensures((WB_CALL(context) && gh_h_items > 0 && OLD(context->first_output)) ==> gh_out_len >= OLD(gh_out_len) + 1)
#else
/* confirmation form: the same clause without the restriction to well-behaved handlers */
__CPROVER_ensures(CMD_OF(context)->callback != NULL ==>
    ((context->first_output != 0) == (OLD(context->first_output) != 0 && !(gh_h_items > 0)) && ((gh_h_items == 0) ==> gh_out_len == OLD(gh_out_len))))
#endif
;

/* ---- SCPI_Parse: one complete line ------------------------------------------------------- */
#define CB_OK(c, k) ((k) >= gh_ncmd || (c)->cmdlist[k].callback == NULL || __CPROVER_obeys_contract((c)->cmdlist[k].callback, handler_contract_full))
#define CMD_CALLBACKS_OK(c) (CB_OK(c, 0) && CB_OK(c, 1) && CB_OK(c, 2) && CB_OK(c, 3) && CB_OK(c, 4) && CB_OK(c, 5) && CB_OK(c, 6) && CB_OK(c, 7))
/* a complete NUL-terminated line: len bytes of message, a NUL at or after them, all in one writable
 * object (the in-place header composition writes into bytes already consumed) */
/* Ghost instantiation rule: gh_nul / gh_buf / gh_buflen are pure ghosts (no executable code reads them), so a
 * requirement that merely ties them to the arguments can always be met by choosing the ghosts; a caller's job
 * therefore uses the contract without the ties and without the ensures that mention them (PARSE_CALLER_VIEW). */
/* What a caller DOES owe is a NUL at or behind the end of the line (the numeric converters stop there).  A caller's job
 * names where that NUL is with gh_fill, a witness its own contract ties to its arguments (SCPI_Input: the fill level after
 * the append), and the byte is checked at every call. */
extern size_t gh_fill;
#ifdef PARSE_CALLER_VIEW
#define LINE_PRE(data, len) ((len) >= 0 && (len) <= LEXMAX && __CPROVER_is_fresh(data, (size_t)(len) + 1) \
    && gh_fill >= (size_t)(len) && __CPROVER_r_ok(data, gh_fill + 1) && (data)[gh_fill] == 0)
#else
#define LINE_PRE(data, len) ((len) >= 0 && (len) <= LEXMAX && gh_nul >= (size_t)(len) && gh_nul <= LEXMAX + 16 && __CPROVER_is_fresh(data, gh_nul + 1) \
    && (data)[gh_nul] == 0 && gh_buf == (data) && gh_buflen == (size_t)(len))
#endif
#define PARSE_FRAME(c) (c)->parser_state, (c)->param_list, (c)->input_count, (c)->output_count, (c)->arbitrary_remaining, (c)->first_output, \
    gh_handler_calls, gh_h_cmd, gh_h_raw, gh_h_rawlen, gh_h_pbuf, gh_h_plen, gh_h_ret, gh_h_cmderr, gh_h_unread, gh_h_items, GHOST_OUT, gh_flushes, \
    REGS_ALL(c), (c)->cmd_error, GHOST_SRQ, GHOST_ERRCB, GHOST_FREE, gh_dup_len, EQ(c)->wr, EQ(c)->count, __CPROVER_object_whole(EQ(c)->data)

scpi_bool_t SCPI_Parse(scpi_t * context, char * data, int len)
__CPROVER_requires(CTX_ERR_PRE(context) && IFACE_WRITE_OK(context) && CMDLIST_PRE(context) && CMD_CALLBACKS_OK(context))
__CPROVER_requires(LINE_PRE(data, len))
/* C09: NO precondition on output_count, first_output, cmd_error, input_count, arbitrary_remaining,
 * param_list or parser_state - whatever an earlier message left there cannot matter */
__CPROVER_assigns(PARSE_FRAME(context), __CPROVER_object_upto(data, (size_t) len))
__CPROVER_ensures(QINV(EQ(context)) && QSAME(EQ(context)) && COH_REGS(context) && COH_QMA(context))
/* C06: one terminator and one flush exactly when some unit responded */
__CPROVER_ensures((context->interface->flush != NULL) ==> gh_flushes == OLD(gh_flushes) + (context->first_output ? 0u : 1u))
__CPROVER_ensures(!context->first_output ==> (gh_out_len >= OLD(gh_out_len) + 2 && gh_out_last == '\n'))
#ifndef PARSE_CALLER_VIEW
__CPROVER_ensures(data[gh_nul] == 0)
#endif
;

/* ---- SCPI_Input: append, execute every complete message, keep the rest -------------------- */
extern unsigned gh_parse_calls;
#define INPUT_FRAME(c) PARSE_FRAME(c), (c)->buffer.position, __CPROVER_object_upto((c)->buffer.data, (c)->buffer.length)
scpi_bool_t SCPI_Input(scpi_t * context, const char * data, int len)
__CPROVER_requires(CTX_ERR_PRE(context) && IFACE_WRITE_OK(context) && CMDLIST_PRE(context) && CMD_CALLBACKS_OK(context))
__CPROVER_requires(context->buffer.length >= 2 && context->buffer.length <= LEXMAX && context->buffer.position < context->buffer.length
    && __CPROVER_is_fresh(context->buffer.data, context->buffer.length))
__CPROVER_requires(len >= 0 && len <= LEXMAX && (len == 0 || __CPROVER_is_fresh(data, (size_t) len)))
/* ghost tie: the witness for "a NUL bounds every line handed to SCPI_Parse" is the fill level after this call's append */
__CPROVER_requires(gh_fill == context->buffer.position + (size_t) len)
__CPROVER_assigns(INPUT_FRAME(context))
__CPROVER_ensures(QINV(EQ(context)) && QSAME(EQ(context)) && COH_REGS(context) && COH_QMA(context))
/* the buffer stays NUL-terminated inside its bounds */
__CPROVER_ensures(context->buffer.position < context->buffer.length)
/* C01/C05: a chunk that does not fit (one byte is kept for the NUL) resets the buffer, queues -363, returns FALSE */
__CPROVER_ensures((len > 0 && (size_t) len > OLD(context->buffer.length) - OLD(context->buffer.position) - 1)
    ==> (!RET && context->buffer.position == 0 && context->buffer.data[0] == 0 && PUSHED_ONE(context, SCPI_ERROR_INPUT_BUFFER_OVERRUN) && gh_handler_calls == OLD(gh_handler_calls)))
/* C08: a zero-length call executes whatever is buffered as a complete message and empties the buffer */
__CPROVER_ensures(len == 0 ==> context->buffer.position == 0)
;
#endif
