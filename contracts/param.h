/* Contracts for the parameter cursor and the typed readers in libscpi/src/parser.c (C05, C04, C01). */
#ifndef VERIF_PARAM_H
#define VERIF_PARAM_H
#include "result.h"
#include "parser_lex.h"
#include "utils_private.h"

extern int gh_conv_zero;   /* the most recent strBaseTo* / strTo* conversion consumed no character */

#define PLEX(c) (&(c)->param_list.lex_state)
/* parameter cursor: the program data of the current unit plus one more readable byte (the input buffer
 * is NUL-terminated beyond it; that the libc conversions stop there is their assumed contract) */
#define PARAM_LEX_PRE(c) (PLEX(c)->len >= 0 && PLEX(c)->len <= LEXMAX && __CPROVER_is_fresh(PLEX(c)->buffer, (size_t) PLEX(c)->len + 1) \
    && __CPROVER_pointer_in_range_dfcc(PLEX(c)->buffer, PLEX(c)->pos, PLEX(c)->buffer + PLEX(c)->len))
#define CTX_PARAM_PRE(c) (CTX_ERR_PRE(c) && GH_RANGES && PARAM_LEX_PRE(c) && (c)->input_count >= 0 && (c)->input_count < 30000)
#define PPOS0(c) OLD(PLEX(c)->pos)
#define P_ATEND0(c) (OFF(PPOS0(c)) >= OFF(PLEX(c)->buffer) + PLEX(c)->len)
#define P_MONO(c) __CPROVER_pointer_in_range_dfcc(PPOS0(c), PLEX(c)->pos, PLEX(c)->buffer + PLEX(c)->len)
#define P_UNMOVED(c) (PLEX(c)->pos == PPOS0(c))
#define PARAM_FRAME(c) PLEX(c)->pos, (c)->input_count, ERRPUSH_FRAME(c)
#define PUSHED_ANY(c) (OLD(EQ(c)->count) < EQ(c)->size ? EQ(c)->count == OLD(EQ(c)->count) + 1 : (EQ(c)->count == EQ(c)->size && QLAST(c).error_code == SCPI_ERROR_QUEUE_OVERFLOW))
#define LAST_CODE_IS(c, code) (OLD(EQ(c)->count) == EQ(c)->size || QLAST(c).error_code == (code))

/* C05: five cases of the parameter cursor */
scpi_bool_t SCPI_Parameter(scpi_t * context, scpi_parameter_t * parameter, scpi_bool_t mandatory)
__CPROVER_requires(CTX_PARAM_PRE(context))
__CPROVER_requires(parameter == NULL || __CPROVER_is_fresh(parameter, sizeof(*parameter)))
__CPROVER_assigns(PARAM_FRAME(context); parameter != NULL: *parameter)
__CPROVER_ensures(P_MONO(context) && QINV(EQ(context)) && QSAME(EQ(context)) && COH_REGS(context) && COH_QMA(context))
__CPROVER_ensures(parameter == NULL ==> (!RET && P_UNMOVED(context) && PUSHED_ONE(context, SCPI_ERROR_SYSTEM_ERROR)))
/* end of the parameter list: missing mandatory -> -109; absent optional -> nothing queued, absence marked */
__CPROVER_ensures((parameter != NULL && P_ATEND0(context)) ==> (!RET && P_UNMOVED(context) && context->input_count == OLD(context->input_count)
    && parameter->len == 0 && parameter->ptr == NULL))
__CPROVER_ensures((parameter != NULL && P_ATEND0(context) && mandatory) ==> (PUSHED_ONE(context, SCPI_ERROR_MISSING_PARAMETER) && parameter->type == SCPI_TOKEN_UNKNOWN))
__CPROVER_ensures((parameter != NULL && P_ATEND0(context) && !mandatory) ==> (NO_PUSH(context) && parameter->type != SCPI_TOKEN_UNKNOWN))
/* not the first parameter and no comma -> -103 */
__CPROVER_ensures((parameter != NULL && !P_ATEND0(context) && OLD(context->input_count) != 0 && PPOS0(context)[0] != ',')
    ==> (!RET && PUSHED_ONE(context, SCPI_ERROR_INVALID_SEPARATOR) && parameter->type == SCPI_TOKEN_UNKNOWN && context->input_count == OLD(context->input_count)))
/* a data item: delivered whole, nothing queued; anything else -> -151 */
__CPROVER_ensures(RET ==> (parameter != NULL && IS_DATA_TYPE(parameter->type) && NO_PUSH(context) && context->input_count == OLD(context->input_count) + 1
    && parameter->len >= 0 && __CPROVER_pointer_in_range_dfcc(PPOS0(context), parameter->ptr, PLEX(context)->pos)
    && OFF(parameter->ptr) + parameter->len <= OFF(PLEX(context)->pos)))
__CPROVER_ensures((RET && (parameter->type == SCPI_TOKEN_SINGLE_QUOTE_PROGRAM_DATA || parameter->type == SCPI_TOKEN_DOUBLE_QUOTE_PROGRAM_DATA || parameter->type == SCPI_TOKEN_PROGRAM_EXPRESSION)) ==> parameter->len >= 2)
__CPROVER_ensures((!RET && parameter != NULL && !P_ATEND0(context) && (OLD(context->input_count) == 0 || PPOS0(context)[0] == ','))
    ==> (PUSHED_ONE(context, SCPI_ERROR_INVALID_STRING_DATA) && parameter->type == SCPI_TOKEN_UNKNOWN && context->input_count == OLD(context->input_count) + 1))
/* summary: failure queues exactly one error, except for the absent optional parameter */
__CPROVER_ensures(!RET ==> (PUSHED_ANY(context) || (parameter != NULL && !mandatory && P_ATEND0(context) && NO_PUSH(context))))
;

scpi_bool_t SCPI_ParamIsNumber(scpi_parameter_t * parameter, scpi_bool_t suffixAllowed)
__CPROVER_requires(__CPROVER_is_fresh(parameter, sizeof(*parameter)))
__CPROVER_assigns()
__CPROVER_ensures(RET == (parameter->type == SCPI_TOKEN_HEXNUM || parameter->type == SCPI_TOKEN_OCTNUM || parameter->type == SCPI_TOKEN_BINNUM
    || parameter->type == SCPI_TOKEN_DECIMAL_NUMERIC_PROGRAM_DATA || (suffixAllowed && parameter->type == SCPI_TOKEN_DECIMAL_NUMERIC_PROGRAM_DATA_WITH_SUFFIX)))
;

/* conversions: text at str (inside a NUL-terminated buffer) to a number; result = characters used.
 * Each is exactly one call of the libc conversion of the right type with the caller's base; the value stored is what that
 * call returned (narrowed to the target width), the result is the number of characters it used (C04: correct rounding and
 * whole-literal conversion are then libc's; a float is never obtained by rounding a double). */
/* gh_conv_zero is a DEFINED ghost: "the most recent conversion used no character".  No code reads or writes it; its defining
 * clause is part of the contract as callers see it and is left out where the helper itself is enforced (CONV_ENFORCE). */
/* Text precondition: where a helper is enforced it is the real one - a NUL-bounded text (witness gh_nul).  The callers'
 * jobs establish only that the literal's first byte is readable: that the parameter buffer is NUL-bounded is established where
 * SCPI_Input hands a line to SCPI_Parse (dispatch.SCPI_Input) but is NOT carried through the handler and parameter contracts;
 * this gap is listed as an assumption in the evidence of every job that uses these contracts. */
#ifdef CONV_ENFORCE
#define CV_ZERO_DEF 1
#define CV_STR_PRE(str) (gh_nul <= 4096 && __CPROVER_is_fresh(str, gh_nul + 1) && (str)[gh_nul] == 0)
#else
#define CV_ZERO_DEF (gh_conv_zero == (RET == 0))
#define CV_STR_PRE(str) __CPROVER_is_fresh(str, 1)
#endif
#define CV_GHOSTS gh_conv_zero, gh_cv_calls, gh_cv_kind, gh_cv_base, gh_cv_bits, gh_cv_used, gh_cv_f, gh_cv_d
#define CV_ONE(K) (gh_cv_calls == OLD(gh_cv_calls) + 1 && gh_cv_kind == (K) && RET == gh_cv_used && CV_ZERO_DEF)
#define CONV_CONTRACT(fn, T, K) \
size_t fn(const char * str, T * val, int8_t base) \
__CPROVER_requires(CV_STR_PRE(str) && __CPROVER_is_fresh(val, sizeof(*val))) \
__CPROVER_requires(base == 2 || base == 8 || base == 10 || base == 16) \
__CPROVER_assigns(*val, CV_GHOSTS) \
__CPROVER_ensures(CV_ONE(K) && gh_cv_base == base && *val == (T) gh_cv_bits) ;
CONV_CONTRACT(strBaseToInt32, int32_t, CV_STRTOL)
CONV_CONTRACT(strBaseToUInt32, uint32_t, CV_STRTOUL)
CONV_CONTRACT(strBaseToInt64, int64_t, CV_STRTOLL)
CONV_CONTRACT(strBaseToUInt64, uint64_t, CV_STRTOULL)
size_t strToFloat(const char * str, float * val)
__CPROVER_requires(CV_STR_PRE(str) && __CPROVER_is_fresh(val, sizeof(*val)))
__CPROVER_assigns(*val, CV_GHOSTS)
__CPROVER_ensures(CV_ONE(CV_STRTOF) && (*val == gh_cv_f || (*val != *val && gh_cv_f != gh_cv_f))) ;
size_t strToDouble(const char * str, double * val)
__CPROVER_requires(CV_STR_PRE(str) && __CPROVER_is_fresh(val, sizeof(*val)))
__CPROVER_assigns(*val, CV_GHOSTS)
__CPROVER_ensures(CV_ONE(CV_STRTOD) && (*val == gh_cv_d || (*val != *val && gh_cv_d != gh_cv_d))) ;

/* token class -> base and signedness (C04), failure only if the conversion used no character */
#define TOVAL_CONTRACT(decl) decl \
__CPROVER_requires(CTX_ERR_PRE(context) && GH_RANGES && __CPROVER_is_fresh(parameter, sizeof(*parameter))) \
__CPROVER_requires(value == NULL || __CPROVER_is_fresh(value, sizeof(*value))) \
__CPROVER_requires(!SCPI_IS_NUMTYPE(parameter->type) || __CPROVER_is_fresh(parameter->ptr, 1)) \
__CPROVER_assigns(CV_GHOSTS, ERRPUSH_FRAME(context); value != NULL: *value) \
__CPROVER_ensures(CTX_ERR_POST(context)) \
__CPROVER_ensures(value == NULL ==> (!RET && PUSHED_ONE(context, SCPI_ERROR_SYSTEM_ERROR))) \
__CPROVER_ensures(value != NULL ==> NO_PUSH(context)) \
__CPROVER_ensures((value != NULL && SCPI_IS_NUMTYPE(parameter->type)) ==> RET == !gh_conv_zero) \
__CPROVER_ensures((value != NULL && !SCPI_IS_NUMTYPE(parameter->type)) ==> !RET) ;
#define SCPI_IS_NUMTYPE(t) ((t) == SCPI_TOKEN_HEXNUM || (t) == SCPI_TOKEN_OCTNUM || (t) == SCPI_TOKEN_BINNUM \
    || (t) == SCPI_TOKEN_DECIMAL_NUMERIC_PROGRAM_DATA || (t) == SCPI_TOKEN_DECIMAL_NUMERIC_PROGRAM_DATA_WITH_SUFFIX)
TOVAL_CONTRACT(static scpi_bool_t ParamSignToUInt32(scpi_t * context, scpi_parameter_t * parameter, uint32_t * value, scpi_bool_t sign))
TOVAL_CONTRACT(static scpi_bool_t ParamSignToUInt64(scpi_t * context, scpi_parameter_t * parameter, uint64_t * value, scpi_bool_t sign))
TOVAL_CONTRACT(scpi_bool_t SCPI_ParamToInt32(scpi_t * context, scpi_parameter_t * parameter, int32_t * value))
TOVAL_CONTRACT(scpi_bool_t SCPI_ParamToUInt32(scpi_t * context, scpi_parameter_t * parameter, uint32_t * value))
TOVAL_CONTRACT(scpi_bool_t SCPI_ParamToInt64(scpi_t * context, scpi_parameter_t * parameter, int64_t * value))
TOVAL_CONTRACT(scpi_bool_t SCPI_ParamToUInt64(scpi_t * context, scpi_parameter_t * parameter, uint64_t * value))
TOVAL_CONTRACT(scpi_bool_t SCPI_ParamToFloat(scpi_t * context, scpi_parameter_t * parameter, float * value))
TOVAL_CONTRACT(scpi_bool_t SCPI_ParamToDouble(scpi_t * context, scpi_parameter_t * parameter, double * value))

/* typed readers: the decision table of C05.
 *   value pointer missing -> -310; cursor cases as SCPI_Parameter; suffix where none allowed -> -138;
 *   other data type -> -104; success queues nothing; a failure without a queued error happens only
 *   for an absent optional parameter - or when the conversion used no character (known finding
 *   for integer readers given a decimal that starts with '.', see known_findings.txt). */
#define READER_CLAUSES(OUT_NULL) \
__CPROVER_requires(CTX_PARAM_PRE(context)) \
__CPROVER_assigns(CV_GHOSTS, PARAM_FRAME(context)) \
__CPROVER_ensures(P_MONO(context) && QINV(EQ(context)) && QSAME(EQ(context)) && COH_REGS(context) && COH_QMA(context)) \
__CPROVER_ensures((OUT_NULL) ==> (!RET && P_UNMOVED(context) && PUSHED_ONE(context, SCPI_ERROR_SYSTEM_ERROR))) \
__CPROVER_ensures(RET ==> (NO_PUSH(context) && context->input_count == OLD(context->input_count) + 1)) \
__CPROVER_ensures((!(OUT_NULL) && P_ATEND0(context)) ==> (!RET && P_UNMOVED(context) && (mandatory ? PUSHED_ONE(context, SCPI_ERROR_MISSING_PARAMETER) : NO_PUSH(context)))) \
__CPROVER_ensures((!RET && PUSHED_ANY(context)) ==> (LAST_CODE_IS(context, SCPI_ERROR_SYSTEM_ERROR) || LAST_CODE_IS(context, SCPI_ERROR_MISSING_PARAMETER) \
    || LAST_CODE_IS(context, SCPI_ERROR_INVALID_SEPARATOR) || LAST_CODE_IS(context, SCPI_ERROR_INVALID_STRING_DATA) \
    || LAST_CODE_IS(context, SCPI_ERROR_DATA_TYPE_ERROR) || LAST_CODE_IS(context, SCPI_ERROR_SUFFIX_NOT_ALLOWED) || LAST_CODE_IS(context, SCPI_ERROR_ILLEGAL_PARAMETER_VALUE)))

#define NUM_READER(decl) decl \
__CPROVER_requires(value == NULL || __CPROVER_is_fresh(value, sizeof(*value))) \
READER_CLAUSES(value == NULL) \
__CPROVER_assigns(value != NULL: *value) \
/* no silent failure */ \
__CPROVER_ensures(!RET ==> (PUSHED_ANY(context) || (value != NULL && !mandatory && P_ATEND0(context)) || gh_conv_zero)) ;

NUM_READER(static scpi_bool_t ParamSignUInt32(scpi_t * context, uint32_t * value, scpi_bool_t mandatory, scpi_bool_t sign))
NUM_READER(static scpi_bool_t ParamSignUInt64(scpi_t * context, uint64_t * value, scpi_bool_t mandatory, scpi_bool_t sign))
NUM_READER(scpi_bool_t SCPI_ParamInt32(scpi_t * context, int32_t * value, scpi_bool_t mandatory))
NUM_READER(scpi_bool_t SCPI_ParamUInt32(scpi_t * context, uint32_t * value, scpi_bool_t mandatory))
NUM_READER(scpi_bool_t SCPI_ParamInt64(scpi_t * context, int64_t * value, scpi_bool_t mandatory))
NUM_READER(scpi_bool_t SCPI_ParamUInt64(scpi_t * context, uint64_t * value, scpi_bool_t mandatory))
/* float/double readers ignore the conversion result: success whenever the token is a plain number */
#define FLT_READER(decl) decl \
__CPROVER_requires(value == NULL || __CPROVER_is_fresh(value, sizeof(*value))) \
READER_CLAUSES(value == NULL) \
__CPROVER_assigns(value != NULL: *value) \
__CPROVER_ensures(!RET ==> (PUSHED_ANY(context) || (value != NULL && !mandatory && P_ATEND0(context)))) ;
FLT_READER(scpi_bool_t SCPI_ParamFloat(scpi_t * context, float * value, scpi_bool_t mandatory))
FLT_READER(scpi_bool_t SCPI_ParamDouble(scpi_t * context, double * value, scpi_bool_t mandatory))

scpi_bool_t SCPI_ParamCharacters(scpi_t * context, const char ** value, size_t * len, scpi_bool_t mandatory)
__CPROVER_requires((value == NULL || __CPROVER_is_fresh(value, sizeof(*value))) && (len == NULL || __CPROVER_is_fresh(len, sizeof(*len))))
READER_CLAUSES(value == NULL || len == NULL)
__CPROVER_assigns(value != NULL: *value; len != NULL: *len)
__CPROVER_ensures(!RET ==> (PUSHED_ANY(context) || (value != NULL && len != NULL && !mandatory && P_ATEND0(context))))
/* text inside the consumed range; quoted strings without their quotes */
__CPROVER_ensures(RET ==> (__CPROVER_pointer_in_range_dfcc(PPOS0(context), *value, PLEX(context)->pos) && OFF(*value) + (long) *len <= OFF(PLEX(context)->pos)))
;
scpi_bool_t SCPI_ParamArbitraryBlock(scpi_t * context, const char ** value, size_t * len, scpi_bool_t mandatory)
__CPROVER_requires((value == NULL || __CPROVER_is_fresh(value, sizeof(*value))) && (len == NULL || __CPROVER_is_fresh(len, sizeof(*len))))
READER_CLAUSES(value == NULL || len == NULL)
__CPROVER_assigns(value != NULL: *value; len != NULL: *len)
__CPROVER_ensures(!RET ==> (PUSHED_ANY(context) || (value != NULL && len != NULL && !mandatory && P_ATEND0(context))))
__CPROVER_ensures(RET ==> (__CPROVER_pointer_in_range_dfcc(PPOS0(context), *value, PLEX(context)->pos) && OFF(*value) + (long) *len <= OFF(PLEX(context)->pos)))
;
/* C15: copies at most buffer_len bytes, NUL-terminates when the text is shorter than the buffer */
scpi_bool_t SCPI_ParamCopyText(scpi_t * context, char * buffer, size_t buffer_len, size_t * copy_len, scpi_bool_t mandatory)
__CPROVER_requires(buffer_len <= 100000 && (buffer == NULL || __CPROVER_is_fresh(buffer, buffer_len + 1)) && (copy_len == NULL || __CPROVER_is_fresh(copy_len, sizeof(*copy_len))))
READER_CLAUSES(buffer == NULL || copy_len == NULL)
__CPROVER_assigns(copy_len != NULL: *copy_len; (buffer != NULL && buffer_len > 0): __CPROVER_object_upto(buffer, buffer_len))
__CPROVER_ensures(!RET ==> (PUSHED_ANY(context) || (buffer != NULL && copy_len != NULL && !mandatory && P_ATEND0(context))))
__CPROVER_ensures(RET ==> (*copy_len <= buffer_len && (*copy_len < buffer_len ==> buffer[*copy_len] == 0)))
;
#endif
