/* Contract for the binary array formatter in libscpi/src/parser.c (C17, C06, C01): for EVERY element count.
 * HOST_FORMAT is the byte order of the verification host model (the job says which; CBMC's default is little endian,
 * --big-endian gives the other one). */
#ifndef VERIF_ARRAY_H
#define VERIF_ARRAY_H
#define BLOCKDATA_NO_PTR_ID 1
#include "result.h"
#ifndef ARR_BAD
#define ARR_BAD 0
#endif
#ifndef HOST_FORMAT
#define HOST_FORMAT SCPI_FORMAT_LITTLEENDIAN
#endif
#define ARR_SIZE_OK(sz) ((sz) == 1 || (sz) == 2 || (sz) == 4 || (sz) == 8)
#define ARR_BYTES (count * item_size)
#define ARR_HDR(n) (2 + ((n) >= 100000000u ? 9 : (n) >= 10000000u ? 8 : (n) >= 1000000u ? 7 : (n) >= 100000u ? 6 \
    : (n) >= 10000u ? 5 : (n) >= 1000u ? 4 : (n) >= 100u ? 3 : (n) >= 10u ? 2 : 1))
/* offset (inside the block data) of the byte the watch position observes */
#define ARR_WOFF (gh_watch - OLD(gh_out_len) - (HAD_ITEMS ? 1 : 0) - ARR_HDR(ARR_BYTES))
/* the source byte that must appear there: the same offset in host order, the mirrored byte of the same element otherwise */
/* (element sizes are powers of two: mirroring inside the element is flipping the low bits of the offset) */
#define ARR_SRC(o) ((format == HOST_FORMAT) ? (o) : ((o) ^ (item_size - 1)))
static size_t produceResultArrayBinary(scpi_t * context, const void * array, size_t count, size_t item_size, scpi_array_format_t format)
__CPROVER_requires(CTX_OUT_PRE_L(context, 3) && CTX_ERRQ_OK(context) && ENUM_OK(format))
#ifdef ARR_FIX   /* proof split: one element size per job */
__CPROVER_requires(ARR_FIX ? item_size == ARR_FIX : item_size == ARR_BAD)   /* ARR_FIX == 0: one size the format does not know per job (ARR_BAD) */
#endif
#if defined(ARR_FIX) && ARR_FIX == 0
__CPROVER_requires(count <= 100000000ul && item_size <= 16)   /* the array is never touched on this path */
#else
__CPROVER_requires(count <= 100000000ul && item_size <= 16 && ARR_BYTES < 1000000000ul && (ARR_BYTES == 0 || __CPROVER_is_fresh(array, ARR_BYTES)))
#endif
__CPROVER_assigns(context->arbitrary_remaining, context->output_count, GHOST_OUT, ERRPUSH_FRAME(context))
__CPROVER_ensures(CTX_ERR_POST(context))
/* an element size the format does not know: -310, nothing written */
__CPROVER_ensures(!ARR_SIZE_OK(item_size) ==> (RET == 0 && WROTE == 0 && context->output_count == OLD(context->output_count) && PUSHED_ONE(context, SCPI_ERROR_SYSTEM_ERROR)))
/* otherwise one complete definite-length block = one result item, for every count including 0 */
__CPROVER_ensures(ARR_SIZE_OK(item_size) ==> (NO_PUSH(context) && context->output_count == OLD(context->output_count) + 1 && context->arbitrary_remaining == 0
    && RET == WROTE && WROTE == (HAD_ITEMS ? 1 : 0) + ARR_HDR(ARR_BYTES) + ARR_BYTES))
#ifndef ARR_NOWATCH
__CPROVER_ensures((ARR_SIZE_OK(item_size) && gh_watch == OLD(gh_out_len) && OLD(gh_out_len) <= (1ul << 59)) ==> gh_watch_val == (HAD_ITEMS ? ',' : '#'))
/* element byte order: every data byte of the block is the byte of the source array the requested format puts there */
__CPROVER_ensures((ARR_SIZE_OK(item_size) && OLD(gh_out_len) <= (1ul << 59) && gh_watch >= OLD(gh_out_len) + (HAD_ITEMS ? 1 : 0) + ARR_HDR(ARR_BYTES) && gh_watch < gh_out_len)
    ==> gh_watch_val == ((const char *) array)[ARR_SRC(ARR_WOFF) < ARR_BYTES ? ARR_SRC(ARR_WOFF) : 0])
#endif
;
/* loop vocabulary (parser.loops): S = element size of the loop, data start = output length at loop entry */
#define ARR_LOOP_INV(S) (i <= count && item_size == (S) && context->arbitrary_remaining == (count - i) * (S) \
    && gh_out_len == __CPROVER_loop_entry(gh_out_len) + i * (S) && result == __CPROVER_loop_entry(result) + i * (S) \
    && context->output_count == __CPROVER_loop_entry(context->output_count) + ((i == count && count > 0) ? 1 : 0) \
    && QINV(EQ(context)) && EQ(context)->size == __CPROVER_loop_entry(EQ(context)->size) && EQ(context)->data == __CPROVER_loop_entry(EQ(context)->data) \
    && EQ(context)->rd == __CPROVER_loop_entry(EQ(context)->rd) && EQ(context)->wr == __CPROVER_loop_entry(EQ(context)->wr) && EQ(context)->count == __CPROVER_loop_entry(EQ(context)->count) \
    && context->cmd_error == __CPROVER_loop_entry(context->cmd_error) && COH_REGS(context) && COH_QMA(context) ARR_WATCH_INV(S))
#ifdef ARR_NOWATCH
#define ARR_WATCH_INV(S)
#else
#define ARR_WATCH_INV(S) \
    && ((__CPROVER_loop_entry(gh_out_len) <= (1ul << 60) && gh_watch >= __CPROVER_loop_entry(gh_out_len) && gh_watch < gh_out_len) \
        ==> gh_watch_val == ((const char *) array)[ARR_LSRC(S)]) \
    && ((__CPROVER_loop_entry(gh_out_len) <= (1ul << 60) && !(gh_watch >= __CPROVER_loop_entry(gh_out_len) && gh_watch < gh_out_len)) \
        ==> gh_watch_val == __CPROVER_loop_entry(gh_watch_val))
#endif
#define ARR_LOFF (gh_watch - __CPROVER_loop_entry(gh_out_len))
#define ARR_LSRC(S) (ARR_LOFF ^ ((size_t) (S) - 1))
#endif
