/* ASSUMED contracts of libc functions (DESIGN 2.4).  They are never enforced; jobs that name
 * one of these functions in "replace" trust the contract.  Each is listed in the evidence. */
#ifndef VERIF_LIBC_H
#define VERIF_LIBC_H
#include "common.h"

extern size_t gh_w;        /* witness byte index for copies */
extern size_t gh_nul;      /* witness: index of a NUL byte that bounds a string */
extern const char *gh_nulp; /* the same as a pointer */
extern const char *gh_wp;   /* witness byte given as a pointer */
extern unsigned gh_free_n;      /* number of free() calls */
extern void *gh_free_last; /* last pointer passed to free() */
extern void *gh_free_prev; /* the one before */

/* ASSUMED: memcpy copies n bytes, touches nothing else */
void *memcpy(void *dst, const void *src, size_t n)
__CPROVER_requires(n == 0 || (__CPROVER_w_ok(dst, n) && __CPROVER_r_ok(src, n)))
__CPROVER_assigns(n > 0: __CPROVER_object_upto(dst, n))
__CPROVER_ensures(RET == dst)
__CPROVER_ensures(gh_w < n ==> ((char *) dst)[gh_w] == OLD(((const char *) src)[gh_w < n ? gh_w : 0]))
/* second fixed witness: the last byte */
__CPROVER_ensures(n > 0 ==> ((char *) dst)[n - 1] == OLD(((const char *) src)[n > 0 ? n - 1 : 0]))
;
/* ASSUMED: memmove copies n bytes (regions may overlap), touches nothing else */
void *memmove(void *dst, const void *src, size_t n)
__CPROVER_requires(n == 0 || (__CPROVER_w_ok(dst, n) && __CPROVER_r_ok(src, n)))
__CPROVER_assigns(n > 0: __CPROVER_object_upto(dst, n))
__CPROVER_ensures(RET == dst)
__CPROVER_ensures(gh_w < n ==> ((char *) dst)[gh_w] == OLD(((const char *) src)[gh_w < n ? gh_w : 0]))
/* second fixed witness: the last byte */
__CPROVER_ensures(n > 0 ==> ((char *) dst)[n - 1] == OLD(((const char *) src)[n > 0 ? n - 1 : 0]))
;
/* ASSUMED: strnlen reads at most n bytes, stops at the first NUL */
size_t strnlen(const char *s, size_t n)
__CPROVER_requires(n == 0 || __CPROVER_r_ok(s, n) || (gh_nul < n && __CPROVER_r_ok(s, gh_nul + 1) && s[gh_nul] == 0))
__CPROVER_assigns()
__CPROVER_ensures(RET <= n)
/* instantiated at the caller's NUL witness: the result is the FIRST NUL */
__CPROVER_ensures((gh_nul < n && __CPROVER_r_ok(s, gh_nul + 1) && s[gh_nul] == 0) ==> RET <= gh_nul)
__CPROVER_ensures((RET < n && __CPROVER_r_ok(s, RET + 1)) ==> s[RET] == 0)
__CPROVER_ensures((gh_w < RET && __CPROVER_r_ok(s, RET)) ==> s[gh_w < RET ? gh_w : 0] != 0)
__CPROVER_ensures((__CPROVER_same_object(gh_wp, s) && OFF(gh_wp) >= OFF(s) && (size_t) (OFF(gh_wp) - OFF(s)) < RET && (size_t) OFF(gh_wp) < __CPROVER_OBJECT_SIZE(s)) ==> *gh_wp != 0)
/* the same for a NUL witness given as a pointer (callers that scan one object from two different starts) */
__CPROVER_ensures((n > 0 && __CPROVER_same_object(gh_nulp, s) && OFF(gh_nulp) >= OFF(s) && (size_t) (OFF(gh_nulp) - OFF(s)) < n && (size_t) OFF(gh_nulp) < __CPROVER_OBJECT_SIZE(s) && *gh_nulp == 0) ==> RET <= (size_t) (OFF(gh_nulp) - OFF(s)))
;
/* ASSUMED: free releases p; modelled as an observer only (ownership is decided by the bounded
 * jobs that use CBMC's real malloc/free model) */
void free(void *p)
__CPROVER_requires(1)
__CPROVER_assigns(gh_free_n, gh_free_last, gh_free_prev)
__CPROVER_ensures(gh_free_n == OLD(gh_free_n) + 1 && gh_free_last == p && gh_free_prev == OLD(gh_free_last))
;
/* ASSUMED: strndup returns NULL (allocation failure) or a fresh NUL-terminated copy of the
 * first strnlen(s, n) bytes */
extern size_t gh_dup_len; /* length of the most recent successful duplicate */
char *strndup(const char *s, size_t n)
__CPROVER_requires(n == 0 || __CPROVER_r_ok(s, n) || (gh_nul < n && __CPROVER_r_ok(s, gh_nul + 1) && s[gh_nul] == 0))
__CPROVER_assigns(gh_dup_len)
__CPROVER_ensures(RET == NULL || (gh_dup_len <= n && __CPROVER_is_fresh(RET, gh_dup_len + 1) && RET[gh_dup_len] == 0
                  && (gh_dup_len < n ==> s[gh_dup_len < n ? gh_dup_len : 0] == 0)
                  && (gh_w < gh_dup_len ==> (RET[gh_w < gh_dup_len ? gh_w : 0] == s[gh_w < gh_dup_len ? gh_w : 0] && RET[gh_w < gh_dup_len ? gh_w : 0] != 0))))
;

/* ---- text -> number conversions of libc -------------------------------------------------------- */
/* ASSUMED: strtol/strtoul/strtoll/strtoull/strtof/strtod convert the longest valid prefix at nptr (correctly rounded for the
 * floating-point ones) and set *endptr to the first unused character, in nptr's object.  Observed through ghosts: which
 * function was called (gh_cv_kind), with which base, what it returned (bit pattern) and how many characters it used.
 * The text must be NUL-bounded (CV_TEXT); see contracts/param.h for how far that is tracked. */
extern unsigned gh_cv_calls; extern int gh_cv_kind, gh_cv_base; extern unsigned long long gh_cv_bits; extern size_t gh_cv_used; extern float gh_cv_f; extern double gh_cv_d;
/* the text: NUL-bounded (witness gh_nul, relative to nptr); a conversion never uses the NUL itself */
#define CV_TEXT(p) (gh_nul <= 4096 && __CPROVER_r_ok((p), gh_nul + 1) && (p)[gh_nul] == 0)
#define CV_STRTOL 1
#define CV_STRTOUL 2
#define CV_STRTOLL 3
#define CV_STRTOULL 4
#define CV_STRTOF 5
#define CV_STRTOD 6
#define CV_FRAME *endptr, gh_cv_calls, gh_cv_kind, gh_cv_base, gh_cv_bits, gh_cv_used, gh_cv_f, gh_cv_d
#define CV_COMMON(K) __CPROVER_ensures(gh_cv_calls == OLD(gh_cv_calls) + 1 && gh_cv_kind == (K) && __CPROVER_same_object(*endptr, nptr) && OFF(*endptr) == OFF(nptr) + (long) gh_cv_used && gh_cv_used <= gh_nul)
#define CV_INT(T, name, K) T name(const char *nptr, char **endptr, int base) \
__CPROVER_requires(CV_TEXT(nptr) && __CPROVER_is_fresh(endptr, sizeof(*endptr))) \
__CPROVER_assigns(CV_FRAME) CV_COMMON(K) __CPROVER_ensures(gh_cv_base == base && gh_cv_bits == (unsigned long long) RET) ;
CV_INT(long, strtol, CV_STRTOL)
CV_INT(unsigned long, strtoul, CV_STRTOUL)
CV_INT(long long, strtoll, CV_STRTOLL)
CV_INT(unsigned long long, strtoull, CV_STRTOULL)
float strtof(const char *nptr, char **endptr)
__CPROVER_requires(CV_TEXT(nptr) && __CPROVER_is_fresh(endptr, sizeof(*endptr)))
__CPROVER_assigns(CV_FRAME) CV_COMMON(CV_STRTOF) __CPROVER_ensures(gh_cv_f == RET || (RET != RET && gh_cv_f != gh_cv_f)) ;
double strtod(const char *nptr, char **endptr)
__CPROVER_requires(CV_TEXT(nptr) && __CPROVER_is_fresh(endptr, sizeof(*endptr)))
__CPROVER_assigns(CV_FRAME) CV_COMMON(CV_STRTOD) __CPROVER_ensures(gh_cv_d == RET || (RET != RET && gh_cv_d != gh_cv_d)) ;
#endif
