/* replay of SCPI_RegSet counterexamples (C11/C12): registers, name, val from the CBMC trace */
#include "rp.h"
#include "scpi/scpi.h"
static int srq_n; static unsigned srq_val;
static scpi_result_t ctl(scpi_t *c, scpi_ctrl_name_t ctrl, scpi_reg_val_t val) { (void)c; if (ctrl == SCPI_CTRL_SRQ) { srq_n++; srq_val = val; } return SCPI_RES_OK; }
#define R(c,n) ((c)->registers[n])
#define BITEQ(reg, bit, cond) ((((reg) & (bit)) != 0) == ((cond) != 0))
static int coh(scpi_t *c) {
    return BITEQ(R(c, SCPI_REG_STB), STB_ESR, R(c, SCPI_REG_ESR) & R(c, SCPI_REG_ESE)) &&
           BITEQ(R(c, SCPI_REG_STB), STB_OPS, R(c, SCPI_REG_OPER) & R(c, SCPI_REG_OPERE)) &&
           BITEQ(R(c, SCPI_REG_STB), STB_QES, R(c, SCPI_REG_QUES) & R(c, SCPI_REG_QUESE)) &&
           BITEQ(R(c, SCPI_REG_STB), STB_SRQ, R(c, SCPI_REG_STB) & ~STB_SRQ & R(c, SCPI_REG_SRE));
}
int main(int argc, char **argv) {
    scpi_t ctx; scpi_interface_t itf; int i; char key[64]; scpi_reg_val_t old[SCPI_REG_COUNT];
    if (argc < 2) return 3;
    rp_load(argv[1]);
    memset(&ctx, 0, sizeof ctx); memset(&itf, 0, sizeof itf); itf.control = ctl; ctx.interface = &itf;
    for (i = 0; i < SCPI_REG_COUNT; i++) { snprintf(key, sizeof key, "registers[%dl]", i); if (!rp_has(key)) { printf("UNUSABLE no %s\n", key); return 3; } ctx.registers[i] = (scpi_reg_val_t) rp_u(key, 0); old[i] = ctx.registers[i]; }
    if (!rp_has("name") || !rp_has("val")) { printf("UNUSABLE no name/val\n"); return 3; }
    scpi_reg_name_t name = (scpi_reg_name_t) rp_u("name", 0); scpi_reg_val_t val = (scpi_reg_val_t) rp_u("val", 0);
    if (!coh(&ctx)) { printf("UNUSABLE precondition COH does not hold natively\n"); return 3; }
    SCPI_RegSet(&ctx, name, val);
    int bad = 0;
    if (!coh(&ctx)) { printf("REPRODUCED status byte incoherent after SCPI_RegSet(name=%d, val=%u): STB=%u ESR=%u ESE=%u OPER=%u OPERE=%u QUES=%u QUESE=%u SRE=%u\n", name, val, R(&ctx,0), R(&ctx,2), R(&ctx,3), R(&ctx,4), R(&ctx,5), R(&ctx,7), R(&ctx,8), R(&ctx,1)); bad = 1; }
    if (name < SCPI_REG_COUNT && name != SCPI_REG_STB && ctx.registers[name] != val) { printf("REPRODUCED written register does not hold the value\n"); bad = 1; }
    if (name == SCPI_REG_OPERC && ctx.registers[SCPI_REG_OPER] != (scpi_reg_val_t)(old[SCPI_REG_OPER] | (val & ~old[SCPI_REG_OPERC]))) { printf("REPRODUCED OPER latch\n"); bad = 1; }
    if (name == SCPI_REG_QUESC && ctx.registers[SCPI_REG_QUES] != (scpi_reg_val_t)(old[SCPI_REG_QUES] | (val & ~old[SCPI_REG_QUESC]))) { printf("REPRODUCED QUES latch\n"); bad = 1; }
    for (i = 1; i < SCPI_REG_COUNT; i++) {
        int allowed = (i == (int) name) || (name == SCPI_REG_OPERC && i == SCPI_REG_OPER) || (name == SCPI_REG_QUESC && i == SCPI_REG_QUES);
        if (!allowed && ctx.registers[i] != old[i]) { printf("REPRODUCED register %d changed by a write to %d\n", i, name); bad = 1; }
    }
    if ((ctx.registers[0] & ~0xE8) != (old[0] & ~0xE8)) { printf("REPRODUCED non-summary status-byte bits changed\n"); bad = 1; }
    if (!(old[0] & STB_SRQ) && (ctx.registers[0] & STB_SRQ) && !(srq_n == 1 && srq_val == ctx.registers[0])) { printf("REPRODUCED MSS rose without SRQ callback carrying the status byte\n"); bad = 1; }
    if (srq_n > 0 && !(srq_val & STB_SRQ)) { printf("REPRODUCED SRQ callback while MSS is 0\n"); bad = 1; }
    if (!bad) printf("NOT-REPRODUCED postconditions hold natively\n");
    return bad ? 1 : 0;
}
