/* Native replay support: reads "key value width" lines (from tools/replay.py) and gives typed
 * lookups by key suffix.  A replayer prints exactly one of
 *   REPRODUCED <what>      the real code shows the failure on this input
 *   NOT-REPRODUCED <what>  the real code behaves according to the postcondition
 *   UNUSABLE <why>         the counterexample could not be turned into a native input */
#ifndef RP_H
#define RP_H
#include <stdio.h>
#include <stdlib.h>
#include <string.h>
#include <stdint.h>
#define RP_MAX 20000
static char *rp_key[RP_MAX]; static unsigned long long rp_val[RP_MAX]; static int rp_w[RP_MAX]; static int rp_n;
static void rp_load(const char *path) {
    FILE *f = fopen(path, "r"); char k[512]; unsigned long long v; int w;
    if (!f) { printf("UNUSABLE cannot open %s\n", path); exit(3); }
    while (rp_n < RP_MAX && fscanf(f, "%511s %llu %d", k, &v, &w) == 3) { rp_key[rp_n] = strdup(k); rp_val[rp_n] = v; rp_w[rp_n] = w; rp_n++; }
    fclose(f);
}
static int rp_find(const char *suffix) {
    size_t ls = strlen(suffix); int i;
    for (i = 0; i < rp_n; i++) if (strcmp(rp_key[i], suffix) == 0) return i;
    for (i = 0; i < rp_n; i++) { size_t lk = strlen(rp_key[i]); if (lk > ls && strcmp(rp_key[i] + lk - ls, suffix) == 0 && rp_key[i][lk - ls - 1] == '.') return i; }
    return -1;
}
static int rp_find_loose(const char *suffix) {
    size_t ls = strlen(suffix); int i;
    for (i = 0; i < rp_n; i++) { size_t lk = strlen(rp_key[i]); if (lk >= ls && strcmp(rp_key[i] + lk - ls, suffix) == 0) return i; }
    return -1;
}
static int rp_has(const char *suffix) { return rp_find(suffix) >= 0; }
static unsigned long long rp_u(const char *suffix, unsigned long long dflt) { int i = rp_find(suffix); return i < 0 ? dflt : rp_val[i]; }
static long long rp_s(const char *suffix, long long dflt) {
    int i = rp_find(suffix); unsigned long long v; int w;
    if (i < 0) return dflt;
    v = rp_val[i]; w = rp_w[i];
    if (w > 0 && w < 64 && (v >> (w - 1)) & 1) v |= ~0ull << w;
    return (long long) v;
}
#endif
