/* Native shim: compiles a harness-style job's OWN harness file natively and runs its entry function on the
 * counterexample: every nondet_*() call returns the value CBMC chose for that call (recorded in call order from
 * the trace), __CPROVER_assume -> "input unusable" if false, __CPROVER_assert -> REPRODUCED if false. */
#ifndef SHIM_H
#define SHIM_H
#define VERIF_NATIVE 1
#include "rp.h"
#include <stddef.h>
#include <stdint.h>
static int shim_bad; static int shim_nd;
static unsigned long long nd_next(void) { char k[32]; snprintf(k, sizeof k, "nd.%d", shim_nd++); return rp_u(k, 0); }
static long long nd_next_s(void) { char k[32]; snprintf(k, sizeof k, "nd.%d", shim_nd++); return rp_s(k, 0); }
#define __CPROVER_assume(c) do { if (!(c)) { printf("UNUSABLE assumption does not hold natively: %s\n", #c); exit(3); } } while (0)
#define __CPROVER_assert(c, msg) do { if (!(c)) { printf("REPRODUCED %s\n", msg); shim_bad = 1; } } while (0)
#define REACH(tag) do { } while (0)
static int nondet_int(void) { return (int) nd_next_s(); }
static unsigned nondet_uint(void) { return (unsigned) nd_next(); }
static long nondet_long(void) { return (long) nd_next_s(); }
static unsigned long nondet_ulong(void) { return (unsigned long) nd_next(); }
static unsigned long long nondet_u64(void) { return nd_next(); }
static unsigned short nondet_u16(void) { return (unsigned short) nd_next(); }
static short nondet_i16(void) { return (short) nd_next_s(); }
static unsigned char nondet_u8(void) { return (unsigned char) nd_next(); }
static signed char nondet_i8(void) { return (signed char) nd_next_s(); }
static char nondet_char(void) { return (char) nd_next_s(); }
static _Bool nondet_bool(void) { return nd_next() != 0; }
static size_t nondet_size(void) { return (size_t) nd_next(); }
static double nondet_double(void) { union { unsigned long long u; double d; } x; x.u = nd_next(); return x.d; }
static float nondet_float(void) { union { unsigned u; float f; } x; x.u = (unsigned) nd_next(); return x.f; }
#endif
