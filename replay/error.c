/* replay of error.c counterexamples (C10/C11/C12): queue shape + registers + code from the CBMC
 * trace; checks the same postconditions natively against a reference FIFO model. */
#include "rp.h"
#include "scpi/scpi.h"
#define R(c,n) ((c)->registers[n])
#define BITEQ(reg, bit, cond) ((((reg) & (bit)) != 0) == ((cond) != 0))
static int coh(scpi_t *c) {
    return BITEQ(R(c, SCPI_REG_STB), STB_ESR, R(c, SCPI_REG_ESR) & R(c, SCPI_REG_ESE)) &&
           BITEQ(R(c, SCPI_REG_STB), STB_OPS, R(c, SCPI_REG_OPER) & R(c, SCPI_REG_OPERE)) &&
           BITEQ(R(c, SCPI_REG_STB), STB_QES, R(c, SCPI_REG_QUES) & R(c, SCPI_REG_QUESE)) &&
           BITEQ(R(c, SCPI_REG_STB), STB_SRQ, R(c, SCPI_REG_STB) & ~STB_SRQ & R(c, SCPI_REG_SRE)) &&
           BITEQ(R(c, SCPI_REG_STB), STB_QMA, c->error_queue.count > 0);
}
static int classbit(int e) {
    if (e <= -100 && e >= -199) return ESR_CER; if (e <= -200 && e >= -299) return ESR_EER;
    if ((e <= -300 && e >= -399) || e >= 1) return ESR_DER; if (e <= -400 && e >= -499) return ESR_QER;
    if (e <= -500 && e >= -599) return ESR_PON; if (e <= -600 && e >= -699) return ESR_URQ;
    if (e <= -700 && e >= -799) return ESR_REQ; if (e <= -800 && e >= -899) return ESR_OPC; return 0;
}
static int cb_n, cb_last;
static int errcb(scpi_t *c, int_fast16_t e) { (void)c; cb_n++; cb_last = (int)e; return 0; }
int main(int argc, char **argv) {
    scpi_t ctx; scpi_interface_t itf; int i, bad = 0; char key[64];
    if (argc < 3) return 3;
    rp_load(argv[1]);
    const char *op = argv[2];
    memset(&ctx, 0, sizeof ctx); memset(&itf, 0, sizeof itf); itf.error = errcb; ctx.interface = &itf;
    for (i = 0; i < SCPI_REG_COUNT; i++) { snprintf(key, sizeof key, "registers[%dl]", i); ctx.registers[i] = (scpi_reg_val_t) rp_u(key, 0); }
    long size = rp_s("error_queue.size", 0), count = rp_s("error_queue.count", 0), rd = rp_s("error_queue.rd", 0);
    if (size < 1 || size > 32767 || count < 0 || count > size || rd < 0 || rd >= size) { printf("UNUSABLE queue shape size=%ld count=%ld rd=%ld\n", size, count, rd); return 3; }
    scpi_error_t *data = calloc(size, sizeof *data); int *model = calloc(size + 1, sizeof(int));
    for (i = 0; i < size; i++) { snprintf(key, sizeof key, "[%dl].error_code", i); data[i].error_code = (int16_t) rp_s(key, 100 + i); }
    ctx.error_queue.data = data; ctx.error_queue.size = (int16_t) size; ctx.error_queue.count = (int16_t) count; ctx.error_queue.rd = (int16_t) rd; ctx.error_queue.wr = (int16_t)((rd + count) % size);
    for (i = 0; i < count; i++) model[i] = data[(rd + i) % size].error_code;
    if (!coh(&ctx)) { printf("UNUSABLE precondition (coherence) does not hold natively\n"); return 3; }
    scpi_reg_val_t esr0 = ctx.registers[SCPI_REG_ESR];
    if (strstr(op, "ErrorPush")) {
        int e = (int16_t) rp_s("e", rp_s("err", -100));
        SCPI_ErrorPushEx(&ctx, (int16_t) e, NULL, 0);
        int mcount = (int) count;
        if (mcount < size) model[mcount++] = e; else model[mcount - 1] = -350;
        if (ctx.registers[SCPI_REG_ESR] != (scpi_reg_val_t)(esr0 | classbit(e))) { printf("REPRODUCED code %d: ESR 0x%x -> 0x%x, expected 0x%x (class bit 0x%x)\n", e, esr0, ctx.registers[SCPI_REG_ESR], esr0 | classbit(e), classbit(e)); bad = 1; }
        if (ctx.error_queue.count != mcount) { printf("REPRODUCED count %d expected %d\n", ctx.error_queue.count, mcount); bad = 1; }
        for (i = 0; i < mcount && i < ctx.error_queue.count; i++) { int got = data[(ctx.error_queue.rd + i) % size].error_code; if (got != model[i]) { printf("REPRODUCED slot %d holds %d expected %d\n", i, got, model[i]); bad = 1; } }
        if (!ctx.cmd_error) { printf("REPRODUCED cmd_error not set\n"); bad = 1; }
        if (cb_n != ((count == size) ? 2 : 1)) { printf("REPRODUCED error callback invoked %d times\n", cb_n); bad = 1; }
    } else if (strstr(op, "ErrorPop")) {
        scpi_error_t out; SCPI_ErrorPop(&ctx, &out);
        int exp = count > 0 ? model[0] : 0;
        if (out.error_code != exp) { printf("REPRODUCED pop yields %d expected %d\n", out.error_code, exp); bad = 1; }
        if (ctx.error_queue.count != (count > 0 ? count - 1 : 0)) { printf("REPRODUCED count after pop %d\n", ctx.error_queue.count); bad = 1; }
        for (i = 1; i < count; i++) { int got = data[(ctx.error_queue.rd + i - 1) % size].error_code; if (got != model[i]) { printf("REPRODUCED slot %d after pop holds %d expected %d\n", i - 1, got, model[i]); bad = 1; } }
    } else if (strstr(op, "ErrorClear")) {
        SCPI_ErrorClear(&ctx);
        if (ctx.error_queue.count != 0) { printf("REPRODUCED count after clear %d\n", ctx.error_queue.count); bad = 1; }
    } else { printf("UNUSABLE unknown op %s\n", op); return 3; }
    if (!coh(&ctx)) { printf("REPRODUCED status byte incoherent after %s: STB=0x%x ESR=0x%x ESE=0x%x count=%d\n", op, R(&ctx,0), R(&ctx,2), R(&ctx,3), ctx.error_queue.count); bad = 1; }
    if (!bad) printf("NOT-REPRODUCED postconditions hold natively\n");
    return bad;
}
