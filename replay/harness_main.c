/* entry for native harness replay: the harness file is passed on the compiler command line before this file */
#ifndef ENTRY
#error ENTRY
#endif
int main(int argc, char **argv) {
    if (argc < 2) return 3;
    rp_load(argv[1]);
    ENTRY();
    if (!shim_bad) printf("NOT-REPRODUCED every assertion of the harness holds natively on the recorded input\n");
    return shim_bad ? 1 : 0;
}
